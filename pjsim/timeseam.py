"""The time seam: virtual sleeping for pjrpc's retry loops.

``pjrpc.client.retry`` does ``import time`` / ``import asyncio`` and calls ``time.sleep(delay)`` /
``asyncio.sleep(delay)``.  During a run both names in that module are replaced by shims that record the
argument and then sleep *virtually* (advance the world's clock / sleep on the SimLoop).  ``time.sleep``
itself is replaced as well, so code reaching it by another import path still meets the shim.
"""
from __future__ import annotations

import asyncio
import threading
import time as _time
import types
from typing import Any, Dict

import pjrpc.client.retry as _retry

from .world import World

_REAL_SLEEP = _time.sleep


def install(world: World) -> Dict[str, Any]:
    def sleep(delay: float) -> None:
        try:
            task = asyncio.current_task()
        except RuntimeError:
            task = None
        who = getattr(task, 'pjsim_caller', None) if task is not None else None
        if who is None:
            who = getattr(threading.current_thread(), 'pjsim_caller', None)
        world.rec('client', 'sleep', delay=delay, mode='blocking', task=who)
        world.probe('sleep.blocking')
        if isinstance(delay, (int, float)) and delay > 0:
            world.now += delay

    async def asleep(delay: float, result: Any = None) -> Any:
        task = asyncio.current_task()
        world.rec('client', 'sleep', delay=delay, mode='async',
                  task=getattr(task, 'pjsim_caller', None) if task is not None else None)
        world.probe('sleep.async')
        return await asyncio.sleep(delay, result)

    time_shim = types.SimpleNamespace(**{k: getattr(_time, k) for k in dir(_time) if not k.startswith('__')})
    time_shim.sleep = sleep
    time_shim.time = lambda: world.now
    time_shim.monotonic = lambda: world.now

    class AsyncioShim:
        def __getattr__(self, name: str) -> Any:
            return getattr(asyncio, name)

    aio_shim = AsyncioShim()
    aio_shim.sleep = asleep  # type: ignore[attr-defined]

    state = {'retry.time': _retry.time, 'retry.asyncio': _retry.asyncio, 'time.sleep': _time.sleep}
    _retry.time = time_shim  # type: ignore[assignment]
    _retry.asyncio = aio_shim  # type: ignore[assignment]
    _time.sleep = sleep
    # every clock a piece of code under test could read through the time module shows the virtual instant (modules that
    # bound the functions at import time - threading, the event loop base class - keep the real ones)
    for name in CLOCKS:
        state['time.' + name] = getattr(_time, name)
    _time.monotonic = _time.time = _time.perf_counter = lambda: world.now          # type: ignore[assignment]
    _time.monotonic_ns = _time.time_ns = _time.perf_counter_ns = lambda: int(world.now * 1e9)  # type: ignore[assignment]
    return state


CLOCKS = ('monotonic', 'time', 'perf_counter', 'monotonic_ns', 'time_ns', 'perf_counter_ns')


def uninstall(state: Dict[str, Any]) -> None:
    _retry.time = state['retry.time']
    _retry.asyncio = state['retry.asyncio']
    _time.sleep = state['time.sleep']
    for name in CLOCKS:
        setattr(_time, name, state['time.' + name])
