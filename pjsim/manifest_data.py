"""Source of /verif/MANIFEST.json (written by ``python -m pjsim.manifest_data``)."""
import json
import os

NOT_APPLICABLE = {
    'C04': 'Binding a params list/dict to a Python signature is a pure function of (signature, params): no peer, clock, '
           'schedule, fault or history for a simulator to control; the quantifier is over programs (signature shapes).',
    'C05': 'to_json/from_json round-trips are a pure codec identity over message values; nothing in it depends on a '
           'schedule, clock, peer behaviour or fault.',
    'C14': 'Validator admission is a pure function of (signature, schema/annotations, arguments).',
    'C15': 'The reachable-name set is a pure function of a sequential start-up registration history; no concurrent, timed '
           'or faulty access to the registry exists for a simulator to vary.',
    'C16': 'Specification generation is a pure function of the registry and annotations (its purity defects are aliasing '
           'bugs of a sequential function, found by calling it twice, not by scheduling or faults).',
    'C17': 'Agreement between the document generator and the binder is a relation between two pure functions over programs.',
}

NOT_BUILT = 'claimed in DESIGN.md section 3; its check is not built yet in this commit'

CHECKS = {
    'C07': dict(
        category='exploration', design_ref='DESIGN.md section 3, C07',
        text='Seeded end-to-end simulation: real pjrpc client (sync/async, every call notation, every built-in id '
             'generator behind a seeded entropy seam, strict on/off) connected over a fault-free simulated network '
             '(virtual latencies, seeded event-loop schedules) to the real pjrpc dispatcher (sync/async, def and async '
             'def methods); every wire document is checked against a reference request document and every caller '
             'outcome against direct invocation of the function body. Sampled, not exhaustive.'
             ' Families: single operations in two notations, batches in two notations (hand-built batches put together '
             'through the constructor, strict=False, append and extend), and 2-3 callers sharing one '
             'async client with overlapping calls; every (client, dispatcher, flavour, id generator, strict) '
             'configuration is forced systematically.'
             ' e2e.generations: generations of client / dispatcher / service objects built, used, dropped and collected in one process. Dispatchers may carry a batch-size limit the traffic stays within; client and server may use transparent user hooks; notation add_getitem queues calls and completes the batch with the bracket notation.',
        note='Trusted: the reference request-document validator and the direct-invocation oracle (pjsim/ref, '
             'pjsim/service); the transport is SimNet at the _request seam, not an HTTP back-end.',
        technique='deterministic simulation: seeded two-party runs, virtual-time event loop, differential oracle vs direct call',
    ),
    'C09': dict(
        category='exploration', design_ref='DESIGN.md section 3, C09',
        text='Seeded fault sequences under a virtual clock: the real retry loops and backoff generators run against a '
             'simulated transport whose k-th attempt returns a success, a listed/unlisted error code, a batch-level '
             'error, raises a listed / subclass / unlisted exception or a BaseException, or returns an undecodable / '
             'invalid / mismatching reply, with virtual latencies; sleeping goes through a time seam, so the number of '
             'sends, every pause (exact equality with the closed backoff formulas), the absence of pauses before the '
             'first and after the last send, and the identity of the outcome reaching the caller are compared with a '
             'reference retry model. Sampled over strategies, placements (client-wide / per-request / disabled / '
             'replaced), request kinds and both clients.'
             ' Systematic part: every outcome sequence of length n+2 over the property\'s outcome alphabet for n <= 1 '
             '(quick) / n <= 3 (thorough) x single / batch / notification. History families: several requests on one '
             'long-lived client (the retry budget must be per request). Calls are also issued while the caller handles '
             'an unrelated exception. Concurrent family: two or three tasks use one asynchronous client (one client-wide '
             'strategy, optional per-request strategies) at the same time, each request with its own per-attempt script, '
             'every record attributed to its caller and judged per caller. Cancellation: on the asynchronous client the '
             'caller task is cancelled at a seeded instant placed inside an attempt or a pause; what happened before '
             'must be a prefix of the uncancelled behaviour, nothing is sent or slept afterwards and the caller is '
             'released at that instant.',
        note='Trusted: ref_retry (closed formulas), the time seam (pjrpc.client.retry.time / .asyncio and time.sleep '
             'shimmed), SimNet. Jitter callables are constants; durations are dyadic rationals so equality is exact.',
        technique='deterministic simulation: scripted per-attempt fault sequences, virtual clock, reference retry model',
    ),
    'C19': dict(
        category='exploration', design_ref='DESIGN.md section 3, C19',
        text='Recording tracers on the real sync and async clients; per-attempt outcomes scripted on the simulated '
             'transport (responses, error responses, transport exceptions, undecodable / invalid / id-mismatching '
             'replies, BaseException), retries under the virtual clock and, on the async client, cancellation of the '
             'caller task at seeded virtual instants (before the first send, inside the transport, inside a backoff '
             'sleep, after the reply). The recorded history is checked for begin/completion pairing per tracer and '
             'attempt, completion kind and payload, configuration order, context and request identity, and identity of '
             'the exception reaching the caller.'
             ' Further families: several requests on one long-lived client; 2-3 tasks on one async client and 2-3 baton '
             'threads on one sync client with overlapping attempts (pairing judged per request object); calls issued '
             'while the caller handles an unrelated exception.'
             ' The library LoggingTracer can sit among the recording tracers, tracer hooks can be installed per instance, the caller-supplied trace context can be an object that accepts no attributes or a callable; a synchronous transport can raise StopIteration, any transport asyncio.CancelledError; the tracers are handed over as list, tuple, deque or a dict values view.',
        note='Trusted: the pairing oracle (Appendix F.6), SimLoop cancellation timing, SimNet. Tracers do not raise.',
        technique='deterministic simulation: fault sequences + seeded cancellation instants, history pairing oracle',
    ),
    'C01': dict(
        category='exploration', design_ref='DESIGN.md section 3, C01',
        text='Invariant monitor at the simulated server seam: every request text delivered to the real sync / async '
             'dispatcher (generated traffic incl. all-notification batches; the same traffic through a corrupting '
             'request leg: truncation, garbling, insertion, span repetition, oversized integer literals, structure-aware '
             'member replacement, nesting up to 64; documents composed by a hostile peer from per-member alphabets) '
             'must yield None or (text, codes) with a valid, non-empty JSON-RPC 2.0 response document and agreeing '
             'codes; async batches run under seeded schedules with suspending methods. A fifth of the generated documents '
             'is respelled in another legal JSON form (escapes in names and strings, whitespace, raw unicode, duplicate '
             'member names). Sampled inputs, not enumerated.'
             ' Environment and configuration knobs drawn per run for every server-side family: transparent user hooks (message subclasses overriding from_json with the documented signature and defining __bool__, delegating loader / dumper / encoder / decoder), registered callables as functions / functools.partial objects / instances with __call__, one function published under several names (with and without injected context, behind a validator that hides a parameter, under a non-ASCII name), a class-based view with a static method and optionally a context named like a method parameter, error handlers as partials / callable instances / functions returning a Future, the library loggers at DEBUG in a quarter of the runs, a fifth of the documents respelled in another legal JSON form. server.own_loader: a json_loader that reads floats as Decimal in front of methods that never hand a parameter back.',
        note='Trusted: ref_jsonrpc.valid_response. Weakest simulation content of the claimed set: only the async batch '
             'path has a schedule in it; the simulator contributes traffic, wire-fault model and monitor.',
        technique='deterministic simulation: wire-fault injection on the request leg + invariant monitor at the server seam',
    ),
    'C02': dict(
        category='exploration', design_ref='DESIGN.md section 3, C02',
        text='Real sync / async dispatcher (seeded schedules, suspending methods) serving generated single requests and '
             'batches over the element alphabet of the property (call / notification x succeeds / unknown / unbindable / '
             'protocol error / arbitrary exception / invalid object; id typings; duplicate ids; max_batch_size around the '
             'length); reply and recorded executions compared with a reference dispatcher, and every accepted batch '
             'compared element by element with the replies of its elements sent alone to identically configured fresh '
             'servers in the same world.'
             ' Environment and configuration knobs drawn per run for every server-side family: transparent user hooks (message subclasses overriding from_json with the documented signature and defining __bool__, delegating loader / dumper / encoder / decoder), registered callables as functions / functools.partial objects / instances with __call__, one function published under several names (with and without injected context, behind a validator that hides a parameter, under a non-ASCII name), a class-based view with a static method and optionally a context named like a method parameter, error handlers as partials / callable instances / functions returning a Future, the library loggers at DEBUG in a quarter of the runs, a fifth of the documents respelled in another legal JSON form. Between deliveries every name can be registered again on the live dispatcher (hot reload): only the new functions may run afterwards.',
        note='Trusted: ref_dispatch (written from the JSON-RPC 2.0 specification), the instrumented service. '
             'max_batch_size=0 accepted under both readings.',
        technique='deterministic simulation: seeded schedules, exactly-once execution log, differential vs reference and vs solo sends',
    ),
    'C03': dict(
        category='fault_enumeration', design_ref='DESIGN.md section 3, C03',
        text='Fault enumeration at the callee seam (every failure kind x protocol code | exception type x batch length x '
             'position x call/notification as forced choice prefixes, then seeded combinations) and at the wire seam '
             '(request-leg corruption); replies compared with the reference error mapping (-32700/-32600/-32601/-32602, '
             'verbatim protocol errors incl. absent vs null data, -32000 without data) and searched for marker strings '
             'and exception type names that must not leak.'
             ' Environment and configuration knobs drawn per run for every server-side family: transparent user hooks (message subclasses overriding from_json with the documented signature and defining __bool__, delegating loader / dumper / encoder / decoder), registered callables as functions / functools.partial objects / instances with __call__, one function published under several names (with and without injected context, behind a validator that hides a parameter, under a non-ASCII name), a class-based view with a static method and optionally a context named like a method parameter, error handlers as partials / callable instances / functions returning a Future, the library loggers at DEBUG in a quarter of the runs, a fifth of the documents respelled in another legal JSON form. Callee faults include 24 exception classes (timeouts, futures\' CancelledError, connection reset, exception groups, an exception raised while a caught protocol error is being handled ...).',
        note='Trusted: ref_dispatch; data of library-generated errors is not modelled; huge integer literals are an '
             'open zone (C01 only).',
        technique='deterministic simulation: systematic single-fault placements + seeded fault combinations, reference error mapping',
    ),
    'C10': dict(
        category='exploration', design_ref='DESIGN.md section 3, C10',
        text='The real AsyncDispatcher serves batches of 2-4 elements whose methods, middlewares and error handlers '
             'suspend at up to 2 seeded points each; the simulated event loop decides every interleaving (FIFO, uniform '
             'random pick, PCT priorities) in virtual time. The reply must equal the reference chain (request order, own '
             'id, own result/error), every method must have run exactly once, and with concurrent_batch=False the '
             'in-flight intervals must be pairwise disjoint and in request order. Interleavings are sampled (distinct '
             'interleaving signatures reported), not enumerated.'
             ' Environment and configuration knobs drawn per run for every server-side family: transparent user hooks (message subclasses overriding from_json with the documented signature and defining __bool__, delegating loader / dumper / encoder / decoder), registered callables as functions / functools.partial objects / instances with __call__, one function published under several names (with and without injected context, behind a validator that hides a parameter, under a non-ASCII name), a class-based view with a static method and optionally a context named like a method parameter, error handlers as partials / callable instances / functions returning a Future, the library loggers at DEBUG in a quarter of the runs, a fifth of the documents respelled in another legal JSON form.'
             ' async.duplicates: the same notification two or three times in one batch, judged against the reference '
             'dispatcher (every occurrence runs once).',
        note='Trusted: SimLoop (subclass of asyncio.BaseEventLoop), ref_chain. Exhaustive enumeration of interleavings '
             'would be model checking and is not claimed.',
        technique='deterministic simulation: seeded schedulers over suspending batch elements, in-flight interval oracle',
    ),
    'C12': dict(
        category='exploration', design_ref='DESIGN.md section 3, C12',
        text='Instrumented middlewares (pass-through, short-circuit, request-rewriting, response-rewriting; stacks of '
             '0-3) and error handlers (identity, code-replacing, annotating; generic / per-code / several per key) on the '
             'real sync and async dispatchers; per request element the projected event log and the reply are compared '
             'with a reference chain, for successes, every failure class, notifications, batches and rejected documents; '
             'async chains suspend and interleave under seeded schedules.'
             ' Each run delivers 1-3 documents to the same long-lived dispatcher; asynchronous middlewares are coroutine '
             'functions or plain functions returning the awaitable. A deadline middleware (asyncio.wait_for around '
             'the rest of the chain, answering itself when the virtual deadline expires) is combined with methods that '
             'hang: the cancellation must end the inner chain where it stands and the middleware\'s own reply is what is '
             'sent. Concurrent family: 2-3 documents (half of the runs the same document, same ids) are in flight on one '
             'asynchronous dispatcher at the same time, each delivery judged on its own records.'
             ' Environment and configuration knobs drawn per run for every server-side family: transparent user hooks (message subclasses overriding from_json with the documented signature and defining __bool__, delegating loader / dumper / encoder / decoder), registered callables as functions / functools.partial objects / instances with __call__, one function published under several names (with and without injected context, behind a validator that hides a parameter, under a non-ASCII name), a class-based view with a static method and optionally a context named like a method parameter, error handlers as partials / callable instances / functions returning a Future, the library loggers at DEBUG in a quarter of the runs, a fifth of the documents respelled in another legal JSON form. One handler object may occupy several slots that apply to the same failure.',
        note='Trusted: ref_chain (Appendix F.3). Middlewares / handlers do not raise.',
        technique='deterministic simulation: instrumented callee chain, per-element event-log oracle vs reference chain',
    ),
    'C06': dict(
        category='fault_enumeration', design_ref='DESIGN.md section 3, C06',
        text='Structure-aware fault enumeration on messages in flight, both legs: every single (quick) and double '
             '(thorough) member replacement from per-member alphabets (absent / null / each JSON type / edge values) '
             'for success responses, error responses and error objects on the response leg of real client-server '
             'exchanges (single and batch, all notations, strict on/off), and for request objects on the request leg '
             'observed through the real server; non-object bodies. The client may only end in a normal outcome or the '
             'library deserialisation / identity error and must never accept what the reference validator rejects; the '
             'message in flight is also fed to each from_json directly. Plus id collisions injected at the id-generator '
             'seam (a refused add leaves the batch unchanged: next call() sends exactly the earlier requests) and '
             'append/extend histories of up to 4 ids against a list model.'
             ' Batch deserialisers fed directly are validated too (arrays element-wise, objects only as null-id batch-level errors with exactly one of result / error), also with an error base class of the caller\'s own; extend() is given lists, tuples, generators and iterators; member alphabets include lone surrogates, padded and combining-character strings and 300-character ids.',
        note='Trusted: ref_jsonrpc validators, ref_client matcher. A missing id member in a response is an open zone.',
        technique='deterministic simulation: enumerated structure-aware message corruption on both legs, id-generator collision faults',
    ),
    'C08': dict(
        category='fault_enumeration', design_ref='DESIGN.md section 3, C08',
        text='Response-leg fault enumeration: the true reply of the real dispatcher to a real client batch (1-4 calls '
             'plus notifications, every success/error mix) or single call is permuted, shortened, duplicated, extended '
             'with a foreign element, id-confused (other call, type twin 1<->"1", null, foreign), replaced by a '
             'batch-level error, corrupted member-wise, unwrapped or made undecodable; every (size, fault kind, strict, '
             'client kind, notation) combination is forced, fault arguments seeded. The client verdict (identity / '
             'deserialisation error, acceptance, related links, positional and tuple attribution in call order, first '
             'failing call, batch-level error) is compared with a reference matcher.'
             ' A third family re-uses one batch object: sent, grown (extend / append / add / getitem), sent again with a '
             'permuted reply. match.concurrent: one kept batch wrapper with 2-3 explicit sends in flight at the same time '
             'on the async client, each reply faulted on its own (per-request keyed fault scripts) and judged on its own. '
             'match.retried: the client retries on the identity error; 2-3 successive deliveries, each with its own '
             'fault, must each be matched afresh against the same request.'
             ' Open zones narrowed: next to a null-id entry every call keeps its position and a call without a response of its own id stays unanswered and a repeated id is refused whatever null-id entries stand in front of, between or behind the two occurrences (strict; composite wire fault null_and_dup); in non-strict mode a handed-out response is linked to the request with the same id or to none. Long ids (composite strings, 45-digit integers) get strangers that differ in the middle only.',
        note='Trusted: ref_client.match_single / match_batch (Appendix F.2). Open zones (null ids inside a batch array, '
             'non-strict mismatches) are not judged.',
        technique='deterministic simulation: enumerated response-leg faults on real client-server exchanges, reference matcher',
    ),
    'C11': dict(
        category='exploration', design_ref='DESIGN.md section 3, C11',
        text='Twin comparison inside one simulated world: for each seed the schedule-independent part of a scenario is '
             'drawn first and executed on the synchronous stack and on the asynchronous stack. Server half: the same '
             'request text (generated, corrupted) and configuration (middlewares, handlers, batch limit) on Dispatcher, '
             'on AsyncDispatcher with coroutine methods and on AsyncDispatcher with plain functions, under a seeded '
             'schedule; reply document, codes, executions and per-element chain logs compared. Client half: the same '
             'scripted transport behaviour (per-attempt faults, retry strategy, tracers) on the sync and async client; '
             'request documents, sleeps, caller outcome, tracer events and executions compared.'
             ' History families: the same sequence of requests on long-lived twin clients and on long-lived twin '
             'dispatchers.'
             ' twin.server.big: batches of 99-300 elements on the three dispatchers. The server twin may run under a user encoder with its own rendering of the validation error; the client twin under an id_gen_impl that hands out one long-lived generator, with transparent client hooks, the library LoggingTracer, and transport replies that are white space only.',
        note='No reference model is involved; the false-alarm surface is the projection to schedule-invariant '
             'observations. The simulator\'s own sync/async instrumentation is equivalent by construction.',
        technique='deterministic simulation: same seeded scenario on both stacks, schedule-invariant history projection compared',
    ),
    'C13': dict(
        category='exploration', design_ref='DESIGN.md section 3, C13',
        text='Long-lived shared dispatchers: (a) histories of up to 31 corpus requests, every reply compared with a '
             'fresh identically configured dispatcher; (b) 2-5 real threads dispatching interleaved corpora on one '
             'Dispatcher, exactly one running at a time, the scheduler pre-empting at seeded line boundaries inside pjrpc '
             '(baton passing on sys.settrace); (c) concurrent dispatch tasks on one AsyncDispatcher under seeded '
             'schedules; (d) 1 / 10 / 1000 dispatches with a fresh context each, for function methods (context by name '
             'and positional), class-based views and the base / jsonschema / pydantic validators, sync and async, then '
             'gc.collect() and a census of weak references to contexts, view instances, parsed requests and responses '
             '(all must be dead), plus the error-class registry unchanged.'
             ' (e) a dispatch cancelled at a seeded virtual instant while its elements are suspended: afterwards a probe '
             'request must be answered as by a fresh dispatcher, nothing of the cancelled dispatch may make progress, and '
             'its context must be collectable.'
             ' (f) a census of all gc-tracked objects by type before and after 200-400 dispatches that differ in every '
             'client-controlled part (token, id, params, method name): no type may grow with the number of requests.'
             ' Environment and configuration knobs drawn per run for every server-side family: transparent user hooks (message subclasses overriding from_json with the documented signature and defining __bool__, delegating loader / dumper / encoder / decoder), registered callables as functions / functools.partial objects / instances with __call__, one function published under several names (with and without injected context, behind a validator that hides a parameter, under a non-ASCII name), a class-based view with a static method and optionally a context named like a method parameter, error handlers as partials / callable instances / functions returning a Future, the library loggers at DEBUG in a quarter of the runs, a fifth of the documents respelled in another legal JSON form. A user encoder class whose instances serve one document each (per-document state) may be configured.',
        note='Trusted: baton scheduler (pre-emption only at line events of pjrpc / service files), CPython gc as the '
             'oracle for "no strong reference kept". The pydantic variant runs only if a smoke validation succeeds under '
             'the installed pydantic; the evidence says whether it ran.',
        technique='deterministic simulation: seeded thread interleavings (baton threads), task schedules, histories; weak-reference leak oracle',
    ),
    'C18': dict(
        category='exploration', design_ref='DESIGN.md section 3, C18',
        text='The same POST goes through pjrpc\'s aiohttp, Flask and Werkzeug integrations in process (framework request '
             'parsing is real; no sockets): header faults (each documented type with/without parameters, near-miss, '
             'unrelated, missing) and body faults (wire corruption, invalid UTF-8) x status-by-error functions x endpoint '
             'prefixes x batch limits. Each reply is compared with the verdict recorded at the wrapped dispatcher (body '
             'JSON-equal, application/json, status function applied, 200 + empty body for no verdict, 415 and nothing '
             'executed for other media types) and the three replies with each other.'
             ' Each run issues 1-3 POSTs on the same long-lived applications (main endpoint and a sub-endpoint with its '
             'own dispatcher; the serving dispatcher is identified). Network delivery fault on the aiohttp hop: the body '
             'reaches the handler in 2-3 in-order pieces on the virtual clock, the later ones while the handler runs.'
             ' Bodies padded with JSON and non-JSON white space or a byte order mark, blank bodies; Flask: extension initialised for an earlier application, additional endpoint with a trailing slash on a blueprint of its own; aiohttp: the JSON-RPC application mounted as a sub-application of a parent application.',
        note='Trusted: the in-process hops (WSGI test clients; aiohttp handler awaited on SimLoop with a mocked request '
             'and a real StreamReader). One hop, no clock: weakest simulation content after C01. Known finding: Flask 3.1 '
             'JSON provider vs pjrpc encoder (see known_findings.json).',
        technique='deterministic simulation: header/body fault injection on an in-process HTTP hop, relay oracle + cross-framework comparison',
    ),
    'C20': dict(
        category='exploration', design_ref='DESIGN.md section 3, C20',
        text='The real PjRpcMocker patches the transport method of real sync / async clients and plays the peer; seeded '
             'histories of up to 10 operations (add result/error/callback with once on/off, replace at an index, remove, '
             'single and batch calls, positional/named params, hand-built ids incl. 0 and "", 2 endpoints x 2 methods plus '
             'an unpatched method and an unpatched endpoint, passthrough on/off) are replayed against a queue model; '
             'the async variant runs 2-3 caller tasks under the seeded loop and linearises them by arrival order. Replies, '
             'ids, -32601 / passthrough / refusal and mocker.calls are compared.'
             ' Named parameters called like the mocker\'s own vocabulary (version, endpoint, method_name), replace() with indices counted from the end.',
        note='Trusted: ref_mocker (Appendix F.5) and its generator preconditions (remove of existing keys only; '
             'replace(idx) only while queue order equals addition order; no notifications).',
        technique='deterministic simulation: seeded operation histories vs executable queue model, concurrent callers linearised by arrival',
    ),
}

BUILT = sorted(CHECKS)
ALL_CLAIMED = ['C01', 'C02', 'C03', 'C06', 'C07', 'C08', 'C09', 'C10', 'C11', 'C12', 'C13', 'C18', 'C19', 'C20']


def build():
    checks = []
    for pid in BUILT:
        c = CHECKS[pid]
        checks.append({
            'property_id': pid,
            'quick_cmd': f'bin/check {pid} --tier quick',
            'thorough_cmd': f'bin/check {pid} --tier thorough',
            'evidence_file': f'/verif/evidence/{pid}.json',
            'replay_cmd_template': f'bin/check {pid} --replay {{path}}',
            'engine': 'pjsim',
            'level_claimed': {'category': c['category'], 'text': c['text'], 'design_ref': c['design_ref']},
            'level_note': c['note'],
            'technique': c['technique'],
        })
    na = [{'property_id': k, 'reason': v} for k, v in sorted(NOT_APPLICABLE.items())]
    na += [{'property_id': k, 'reason': NOT_BUILT} for k in ALL_CLAIMED if k not in CHECKS]
    na.sort(key=lambda e: e['property_id'])
    return {
        'version': 1,
        'setup_cmd': '/venv/bin/python -c "import sys; sys.path.insert(0, \'/repo\'); import pjrpc, pjrpc.server, '
                     'pjrpc.client, aiohttp, flask, werkzeug, jsonschema; print(\'pjsim setup ok\')"',
        'hooks': {
            'guard': 'PJRPC_VERIF',
            'enable': 'no source hooks are needed: every seam the checks use already exists in pjrpc (the _request '
                      'transport seam, dispatch(text, context), module attributes of pjrpc.client.retry and '
                      'pjrpc.common.generators, the asyncio event loop); the guard name is reserved and unused',
            'baseline_off_cmd': 'cd /repo && /venv/bin/python -m pytest -q -p no:cacheprovider --timeout=900 '
                                '--continue-on-collection-errors',
            'source_commits': [],
            'add_only': True,
        },
        'engines': [{
            'name': 'pjsim', 'path': '/verif/pjsim', 'serves_properties': BUILT,
            'kind_free_text': 'deterministic simulator: one seeded choice stream, virtual-time asyncio loop with seeded '
                              'schedulers (fifo/random/PCT), simulated network with fault catalogue at the client '
                              'transport seam, baton-passing threads, reference-model oracles, choice-list minimiser, '
                              'replay files',
        }],
        'checks': checks,
        'not_applicable': na,
        'notes': 'See DESIGN.md. Run with /venv/bin/python via bin/check; PYTHONPATH=/repo:/verif so the checks always '
                 'import pjrpc from /repo\'s current working tree. Known findings: /verif/known_findings.json.',
    }


if __name__ == '__main__':
    path = os.path.join(os.path.dirname(os.path.dirname(os.path.abspath(__file__))), 'MANIFEST.json')
    with open(path, 'w') as f:
        json.dump(build(), f, indent=1)
    print('wrote', path)
