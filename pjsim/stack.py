"""Assembling a simulated deployment: client (sync/async) - SimNet - server node (sync/async dispatcher)."""
from __future__ import annotations

import asyncio
import random
import types
import uuid
from typing import Any, Awaitable, Callable, Dict, List, Optional

import pjrpc
import pjrpc.server
from pjrpc.common import generators

from .loop import SimLoop, close_loop, new_loop
from .net import ServerNode, SimAsyncClient, SimClient, SimNet
from .service import Service
from .world import World


def ensure_loop(world: World, policy: Optional[str] = None) -> SimLoop:
    loop = getattr(world, '_loop', None)
    if loop is None:
        loop = new_loop(world, policy)
        world._loop = loop  # type: ignore[attr-defined]
        world.cleanup.append(lambda: close_loop(loop))
    return loop


def fresh_loop(world: World, policy: Optional[str] = None) -> SimLoop:
    """Start a NEW event loop for this world (the previous one stays open until the run ends).  Models a long-lived
    object that is driven by successive event loops (``asyncio.run`` per request)."""
    loop = new_loop(world, policy)
    world._loop = loop  # type: ignore[attr-defined]
    world.cleanup.append(lambda: close_loop(loop))
    world.probe('event_loop_replaced')
    return loop


def seed_generators(world: World) -> None:
    """Put the id generators' entropy (random, uuid4) behind the run's choice stream."""
    if getattr(world, '_gen_seeded', False):
        return
    world._gen_seeded = True  # type: ignore[attr-defined]
    rng = random.Random(world.ch.draw(2 ** 30, 'idgen.seed'))
    old_random, old_uuid = generators._random, generators._uuid
    generators._random = types.SimpleNamespace(randint=rng.randint, choice=rng.choice)  # type: ignore[assignment]
    generators._uuid = types.SimpleNamespace(  # type: ignore[assignment]
        uuid4=lambda: uuid.UUID(int=rng.getrandbits(128), version=4), UUID=uuid.UUID)

    def restore() -> None:
        generators._random, generators._uuid = old_random, old_uuid

    world.cleanup.append(restore)


ID_GENERATORS: Dict[str, Callable[[], Any]] = {
    'sequential': generators.sequential,
    'randint': lambda: generators.randint(1, 2 ** 31),
    'random': generators.random,
    'uuid': generators.uuid,
}


class Stack:
    """One client talking to one server node over one SimNet."""

    def __init__(self, world: World, client_async: bool, server_async: bool, flavour: Optional[str] = None,
                 client_kwargs: Optional[Dict[str, Any]] = None, dispatcher_kwargs: Optional[Dict[str, Any]] = None,
                 script: Optional[List[Dict[str, Any]]] = None, suffix: str = '', sched: Optional[str] = None,
                 methods: Optional[List[str]] = None, service: Optional[Service] = None,
                 context_factory: Optional[Callable[[], Any]] = None):
        self.world = world
        self.client_async = client_async
        self.server_async = server_async
        self.loop: Optional[SimLoop] = ensure_loop(world, sched) if (client_async or server_async) else None
        if flavour is None:
            flavour = 'async' if server_async else 'sync'
        self.service = service or Service(world, flavour, node='server' + suffix)
        dcls = pjrpc.server.AsyncDispatcher if server_async else pjrpc.server.Dispatcher
        dk = dict(dispatcher_kwargs or {})
        dk.setdefault('error_handlers', {})
        self.dispatcher = dcls(**dk)
        self.dispatcher.add_methods(self.service.registry(methods))
        self.server = ServerNode(world, self.dispatcher, self.loop, node='server' + suffix,
                                 context_factory=context_factory)
        self.net = SimNet(world, self.server, script, name='net' + suffix)
        ccls = SimAsyncClient if client_async else SimClient
        self.client = ccls(self.net, **(client_kwargs or {}))

    def run(self, fn: Callable[[], Any]) -> Any:
        """Run an operation: ``fn`` returns a value (sync client) or an awaitable (async client)."""
        if self.client_async:
            assert self.loop is not None
            return self.loop.run_until_complete(_await(fn))
        return fn()


async def _await(fn: Callable[[], Awaitable[Any]]) -> Any:
    return await fn()
