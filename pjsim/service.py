"""The simulated service: instrumented methods, middlewares, error handlers, tracers.

Every method exists as a pure *body* (what a direct Python call does) and as a
registered, instrumented wrapper (``def`` or ``async def``) that records
``method.enter`` / ``method.exit`` in the world's history and - on the async
side - suspends at seeded points taken from ``world.plan[tok]``.  Every call
carries a unique token ``tok`` so that each execution and each result is
attributable to exactly one request element.
"""
from __future__ import annotations

import asyncio
import functools as ft
import inspect
import json
from typing import Any, Callable, Dict, List, Optional, Tuple

import pjrpc
import pjrpc.server
from pjrpc.common import UNSET
from pjrpc.common.exceptions import JsonRpcError

from .world import World

MARKER = 'ZzqSecretMarker'


# --- typed application errors, registered once at import ---------------------------------------------------------
class TypedErrA(JsonRpcError):
    code = 2001
    message = 'typed error a'


class TypedErrB(JsonRpcError):
    code = 2002
    message = 'typed error b'


TYPED_CODES = {2001: TypedErrA, 2002: TypedErrB}   # plus ResourceNotFound (2003), defined below


class ZzqSecretCustomError(Exception):
    pass


class ZzqSecretBadReprError(Exception):
    """An exception that cannot be printed (a detached ORM row, a closed handle ...)."""

    def __repr__(self) -> str:
        raise RuntimeError('this exception has no printable form')

    __str__ = __repr__


def _futures_cancelled(m: str) -> Exception:
    # concurrent.futures.CancelledError is an ordinary Exception (unlike asyncio.CancelledError): a method that waited
    # for a pool future which somebody cancelled fails with it
    import concurrent.futures
    return concurrent.futures.CancelledError(m)


def _raised_while_handling_protocol_error(m: str) -> Exception:
    try:
        raise JsonRpcError(code=4040, message='not found (handled by the method itself)', data={'m': 'handled'})
    except JsonRpcError:
        try:
            raise KeyError(m)
        except KeyError as e:
            return e


def _library_validation_error(m: str) -> Exception:
    # application code re-using the library's own ValidationError inside a method body
    from pjrpc.server.validators import ValidationError
    return ValidationError(m)


EXC_KINDS: Dict[str, Callable[[str], Exception]] = {
    'value': lambda m: ValueError(m),
    'key': lambda m: KeyError(m),
    'type': lambda m: TypeError(m),
    'assert': lambda m: AssertionError(m),
    'runtime': lambda m: RuntimeError(m),
    'custom': lambda m: ZzqSecretCustomError(m),
    'lookup': lambda m: IndexError(m),
    'oserror': lambda m: OSError(m),
    'validation_like': lambda m: ValueError({'loc': m}),
    'validation': _library_validation_error,
    'badrepr': lambda m: ZzqSecretBadReprError(m),
    # exception classes that infrastructure code likes to treat specially (timeouts, cancellations of *other* work,
    # connection trouble, arithmetic, exception groups): to the dispatcher they are failures of the method like any other
    'timeout': lambda m: TimeoutError(m),
    'aio_timeout': lambda m: asyncio.TimeoutError(m),
    'fut_cancelled': lambda m: _futures_cancelled(m),
    'connreset': lambda m: ConnectionResetError(m),
    'zerodiv': lambda m: ZeroDivisionError(m),
    'notimpl': lambda m: NotImplementedError(m),
    'attr': lambda m: AttributeError(m),
    'recursion': lambda m: RecursionError(m),
    'group': lambda m: ExceptionGroup(m, [ValueError(m), KeyError(m)]),
    'unicode': lambda m: UnicodeDecodeError('utf-8', b'\xff', 0, 1, m),
    'stopaiter': lambda m: StopAsyncIteration(m),
    # an ordinary failure that happened while the method was dealing with a protocol error it had caught itself: the
    # handled error is only the implicit context of the KeyError
    'handled_proto_ctx': lambda m: _raised_while_handling_protocol_error(m),
    # the library's own exceptions that are NOT protocol errors (a gateway method that talks to an upstream through a
    # pjrpc client and gets a mismatched id or a malformed reply): to the dispatcher an ordinary failure of the method
    'lib_identity': lambda m: pjrpc.exceptions.IdentityError(m),
    'lib_deser': lambda m: pjrpc.exceptions.DeserializationError(m),
    'lib_base': lambda m: pjrpc.exceptions.BaseError(m),
}
EXC_CLASS_NAMES = ['ValueError', 'KeyError', 'TypeError', 'AssertionError', 'RuntimeError',
                   'ZzqSecretCustomError', 'IndexError', 'OSError', 'ZzqSecretBadReprError', 'TimeoutError',
                   'CancelledError', 'ConnectionResetError', 'ZeroDivisionError', 'NotImplementedError', 'AttributeError',
                   'RecursionError', 'ExceptionGroup', 'UnicodeDecodeError', 'StopAsyncIteration', 'IdentityError',
                   'DeserializationError', 'BaseError']

DATA_MODES = ('absent', 'null', 'value')


class _NoData:
    def __repr__(self) -> str:
        return 'NODATA'


NODATA = _NoData()


class ProtoFailure(Exception):
    """What a method body *means* when it fails with a protocol error: pure data, independent of pjrpc.

    The registered wrapper turns it into ``pjrpc.exceptions.JsonRpcError(code, message, data)`` at the service
    boundary, so that defects of that class's constructor are pjrpc's, not the reference's.
    """

    def __init__(self, code: int, message: str, data: Any = NODATA):
        super().__init__(code, message)
        self.code = code
        self.message = message
        self.data = data


class ResourceNotFound(JsonRpcError):
    """An application error class with a constructor of its own (domain arguments instead of code/message/data)."""

    # no class-level code: the class is deliberately NOT registered for deserialisation (a registered class must be
    # constructible as cls(code, message, data)); it exists on the serving side only
    def __init__(self, resource: Any):
        super().__init__(code=2003, message='resource not found', data={'resource': resource})
        self.resource = resource


def to_jsonrpc_error(pf: ProtoFailure) -> JsonRpcError:
    """What the method actually raises: the class registered for the code when there is one (the way applications and
    the library itself raise typed errors), the generic class otherwise."""
    data = UNSET if pf.data is NODATA else pf.data
    if pf.code == 2003 and isinstance(pf.data, dict) and set(pf.data) == {'resource'} \
            and pf.message == 'resource not found':
        return ResourceNotFound(pf.data['resource'])
    from pjrpc.common.exceptions import JsonRpcErrorMeta
    cls = JsonRpcErrorMeta.__errors_mapping__.get(pf.code) if isinstance(pf.code, int) else None
    if cls is not None:
        return cls(code=pf.code, message=pf.message, data=data)
    return JsonRpcError(code=pf.code, message=pf.message, data=data)


def make_proto_failure(code: int, message: str, data_mode: str = 'absent', data: Any = None) -> ProtoFailure:
    return ProtoFailure(code, message, NODATA if data_mode == 'absent' else (None if data_mode == 'null' else data))


# --- bodies: what a direct Python call does --------------------------------------------------------------------------
def b_echo(tok, value=None):
    return value


def b_add(tok, a, b=10):
    return a + b


def b_none(tok):
    return None


def b_pair(tok, x, y):
    return [x, y]


def b_fail_proto(tok, code, message, data_mode='absent', data=None):
    # a method must itself raise only well-formed protocol errors (integer code, string message); when the wire
    # was corrupted so that the script is malformed, the body fails like any buggy method would: TypeError
    if isinstance(code, bool) or not isinstance(code, int) or not isinstance(message, str) or data_mode not in DATA_MODES:
        raise TypeError('fail_proto: malformed failure script')
    raise make_proto_failure(code, message, data_mode, data)


def b_fail_exc(tok, kind):
    raise EXC_KINDS[kind](f'{MARKER}-{tok}')


def b_slow(tok, n=1):
    return tok


def _make_op(order):
    """Factory-made methods: same module and qualified name, different signatures (a realistic registration style)."""
    if order == 'ab':
        def op(tok, a, b=0):
            return [a, b]
    else:
        def op(tok, b, a=0):
            return [a, b]
    return op


b_op_ab = _make_op('ab')
b_op_ba = _make_op('ba')


def b_typed(tok, n, label='a'):
    return [n, label]


TYPED_SCHEMA = {
    'type': 'object',
    'properties': {'tok': {'type': 'string'}, 'n': {'type': 'integer'}, 'label': {'type': 'string', 'enum': ['a', 'b']}},
    'required': ['tok', 'n'],
}


def typed_valid(arguments):
    """Reference reading of TYPED_SCHEMA, written independently of the jsonschema package."""
    n = arguments.get('n')
    # JSON Schema (draft 6 and later): "integer" is any number with a zero fractional part, so 5.0 and 1e49 qualify
    integral = (isinstance(n, int) and not isinstance(n, bool)) or (isinstance(n, float) and n.is_integer())
    if not isinstance(arguments.get('tok'), str) or not integral:
        return False
    if 'label' in arguments and arguments['label'] not in ('a', 'b'):
        return False
    return True


def b_typed_default(tok, flag=False):
    return ['d', flag]


# validator-level (default) schema: used by methods decorated with a bare ``validator.validate``
DEFAULT_SCHEMA = {
    'type': 'object',
    'properties': {'tok': {'type': 'string'}, 'flag': {'type': 'boolean'}},
    'required': ['tok'],
}


def typed_default_valid(arguments):
    if not isinstance(arguments.get('tok'), str):
        return False
    return 'flag' not in arguments or isinstance(arguments['flag'], bool)


# name -> (schema passed to validate() or None for "relies on the validator-level schema", reference predicate)
VALIDATED = {'typed': (TYPED_SCHEMA, typed_valid), 'typed_default': (None, typed_default_valid)}


def b_fail_typed(tok, resource):
    raise ProtoFailure(2003, 'resource not found', {'resource': resource})


def b_mixed_keys(tok, n=1):
    """A JSON-encodable result whose object keys are of mixed Python types."""
    return {1: 'one', 'b': n, 2.5: [tok]}


def b_single(value):
    """Exactly one parameter (no token): the shape `batch[('single', {...})]` exercises."""
    return {'got': value}


def b_kwonly(tok, *, flag=False, level=1):
    """Keyword-only parameters: they can be given by name only; by position only ``tok`` binds."""
    return [tok, flag, level]


CURRENT_CONTEXT_MARK: List[Any] = [None]   # mark of the context object of the delivery being served (set by the node)


def b_whoami(tok, ctx):
    """Takes the per-request context.  The very same function object is published twice: as ``whoami`` with the
    context injected under the name ``ctx``, and as ``whoami_explicit`` without context, where ``ctx`` is an ordinary
    parameter the caller has to pass."""
    mark = getattr(ctx, 'mark', None)
    return [tok, mark if isinstance(mark, str) else None]


def b_nest(tok):
    """Body of ``nest``: the method calls the very dispatcher that is serving it with a request of its own (an unknown
    method, id "inner") and reports the error code it was answered with."""
    return ['nested', 'ok']


def b_status(tok):
    """Published as ``_status``: a JSON-RPC method name may be any string, also one that looks private in Python."""
    return ['status', tok]


def b_explode(tok):
    """Never reached: the validator attached to this method fails with an ordinary exception (not a ValidationError)."""
    return tok


INTERNAL = ('explode',)   # methods whose handling fails inside the library's own machinery -> -32603


def b_vecho(tok, value=None):
    """Body of the class-based view method ``vecho`` (a fresh view instance serves every request)."""
    return [tok, value]


def b_vstatic(tok):
    """Body of ``vstatic``: a @staticmethod exposed by the class-based view."""
    return ['static', tok]


def b_ctx_echo(ctx, tok, value=None):
    return value


BODIES: Dict[str, Callable[..., Any]] = {
    'echo': b_echo, 'add': b_add, 'none': b_none, 'pair': b_pair,
    'fail_proto': b_fail_proto, 'fail_exc': b_fail_exc, 'slow': b_slow, 'op_ab': b_op_ab, 'op_ba': b_op_ba, 'typed': b_typed,
    'typed_default': b_typed_default, 'vecho': b_vecho, 'vstatic': b_vstatic, 'fail_typed': b_fail_typed, 'mixed_keys': b_mixed_keys,
    'single': b_single, 'explode': b_explode, 'kwonly': b_kwonly, 'whoami': b_whoami,
    '_status': b_status, 'nest': b_nest,
}
SIGNATURES: Dict[str, inspect.Signature] = {name: inspect.signature(fn) for name, fn in BODIES.items()}


def jnorm(value: Any) -> Any:
    """JSON normalisation: what a value looks like after a trip over the wire."""
    return json.loads(json.dumps(value))


def direct(name: str, args: Tuple[Any, ...] = (), kwargs: Optional[Dict[str, Any]] = None) -> Tuple[Any, ...]:
    """Outcome of calling the body directly: ('ok', v) | ('err', code, message, data|UNSET) | ('exc', type name)."""
    try:
        value = BODIES[name](*args, **(kwargs or {}))
    except ProtoFailure as e:
        return ('err', e.code, e.message, UNSET if e.data is NODATA else jnorm(e.data))
    except Exception as e:  # noqa: BLE001 - reference semantics: any other exception
        return ('exc', type(e).__name__)
    return ('ok', jnorm(value))


VIEW_METHODS = ('vecho', 'vstatic')
DEFERRED = ('pair', 'add', 'fail_exc')   # served through a plain function that returns the coroutine
_MISSING: Any = type('Missing', (), {'__repr__': lambda self: 'MISSING'})()


def _callable_instance(fn: Callable[..., Any], body: Callable[..., Any]) -> Any:
    """An object that is called like the function (users register service objects with __call__)."""
    class CallableMethod:
        def __call__(self, *args: Any, **kwargs: Any) -> Any:
            return fn(*args, **kwargs)

    obj = CallableMethod()
    obj.__signature__ = inspect.signature(body)  # type: ignore[attr-defined]
    obj.__name__ = getattr(body, '__name__', 'callable')  # type: ignore[attr-defined]
    return obj


class Service:
    """Per-run instrumented registry.

    ``flavour``: 'sync' (plain functions), 'async' (coroutine functions), 'mixed' (alternating; only meaningful
    for the asynchronous dispatcher, which must serve plain functions too).
    """

    def __init__(self, world: World, flavour: str = 'sync', node: str = 'server', generation: int = 1):
        self.world = world
        self.flavour = flavour
        self.node = node
        self.generation = generation     # which deployment of the functions this is (they can be registered again)
        self.dispatcher: Any = None      # set by the scenario: the dispatcher serving these methods (for re-entrancy)
        self.methods: Dict[str, Callable[..., Any]] = {}
        self.is_coro: Dict[str, bool] = {}
        for i, (name, body) in enumerate(sorted(BODIES.items())):
            if name in VIEW_METHODS:
                continue
            coro = flavour == 'async' or (flavour == 'mixed' and i % 2 == 0)
            self.methods[name] = self._wrap_async(name, body) if coro else self._wrap_sync(name, body)
            if name == 'nest':
                self.methods[name] = self._wrap_nest(coro)
            if coro and name in DEFERRED:
                # not a coroutine function, but it returns a coroutine: an async method behind an ordinary decorator
                self.methods[name] = self._defer(name, body, self.methods[name])
            self.is_coro[name] = coro
            # the shape of the registered callable: a plain function, a functools.partial around it, or an instance of a
            # class with __call__ (carrying the function's signature); the context-taking method stays a function
            if name not in ('whoami', 'echo', 'explode', 'typed', 'typed_default'):
                shape = world.ch.choice(['function', 'function', 'partial', 'callable'], 'svc.shape')
                if shape == 'partial':
                    self.methods[name] = ft.partial(self.methods[name])
                elif shape == 'callable':
                    self.methods[name] = _callable_instance(self.methods[name], body)
        for name in VIEW_METHODS:
            self.is_coro[name] = flavour != 'sync'
        self.is_coro['vstatic'] = False      # a plain static method in every flavour
        self.is_coro['whoami_explicit'] = self.is_coro['whoami']
        self.is_coro['echo_guarded'] = self.is_coro['echo']
        self.is_coro['\u043d\u0435\u0442/none \u2713 \U0001F600'] = self.is_coro['none']

    # -- wrappers ----------------------------------------------------------------------------------
    def _enter(self, name: str, args: Tuple[Any, ...], kwargs: Dict[str, Any]) -> str:
        bound = SIGNATURES[name].bind(*args, **kwargs)
        tok = bound.arguments.get('tok')
        shown = {k: v for k, v in bound.arguments.items() if k != 'tok'}
        if name == 'whoami':
            # one function, two publications: with an injected context object, or with ``ctx`` passed by the caller
            if isinstance(shown.get('ctx'), (str, int, dict, list)):
                name = 'whoami_explicit'
            else:
                shown.pop('ctx', None)
        self.world.rec(self.node, 'method.enter', method=name, tok=tok, args=shown, gen=self.generation)
        return tok if isinstance(tok, str) else repr(tok)

    def _wrap_sync(self, name: str, body: Callable[..., Any]) -> Callable[..., Any]:
        world = self.world
        node = self.node

        @ft.wraps(body)
        def method(*args: Any, **kwargs: Any) -> Any:
            tok = self._enter(name, args, kwargs)
            try:
                value = body(*args, **kwargs)
            except ProtoFailure as pf:
                world.rec(node, 'method.exit', method=name, tok=tok, outcome='raise', exc='ProtoFailure')
                raise to_jsonrpc_error(pf)
            except BaseException as e:
                world.rec(node, 'method.exit', method=name, tok=tok, outcome='raise', exc=type(e).__name__)
                raise
            world.rec(node, 'method.exit', method=name, tok=tok, outcome='return')
            return value

        return method

    def _wrap_async(self, name: str, body: Callable[..., Any]) -> Callable[..., Any]:
        world = self.world
        node = self.node

        @ft.wraps(body)
        async def method(*args: Any, **kwargs: Any) -> Any:
            tok = self._enter(name, args, kwargs)
            try:
                for k, d in enumerate(world.plan.get(('method', tok), ())):
                    await asyncio.sleep(d)
                    world.rec(node, 'method.step', method=name, tok=tok, k=k)
                value = body(*args, **kwargs)
            except ProtoFailure as pf:
                world.rec(node, 'method.exit', method=name, tok=tok, outcome='raise', exc='ProtoFailure')
                raise to_jsonrpc_error(pf)
            except BaseException as e:
                world.rec(node, 'method.exit', method=name, tok=tok, outcome='raise', exc=type(e).__name__)
                raise
            world.rec(node, 'method.exit', method=name, tok=tok, outcome='return')
            return value

        return method

    def _wrap_nest(self, coro: bool) -> Callable[..., Any]:
        """``nest(tok)``: re-enters the dispatcher that is serving it (where the kinds of dispatcher and method allow)."""
        world, node, service = self.world, self.node, self

        def inner_text(tok: Any) -> str:
            return json.dumps({'jsonrpc': '2.0', 'method': 'nosuch_inner', 'params': [f'{tok}_in'], 'id': 'inner'})

        def code_of(reply: Any) -> Any:
            doc = json.loads(reply[0])
            # (error handlers may rewrite the code: only "an error, under the inner request's id" is reported)
            return 'ok' if doc.get('id') == 'inner' and 'error' in doc else ['answered under id', doc.get('id')]

        if coro:
            async def nest(tok):  # type: ignore[no-untyped-def]
                world.rec(node, 'method.enter', method='nest', tok=tok, args={}, gen=service.generation)
                code: Any = 'ok'
                d = service.dispatcher
                if d is not None and isinstance(tok, str):
                    for k, pause in enumerate(world.plan.get(('method', tok), ())):
                        await asyncio.sleep(pause)
                    reply = d.dispatch(inner_text(tok), None)
                    if inspect.isawaitable(reply):
                        reply = await reply
                    code = code_of(reply)
                    world.probe('method_reentered_dispatcher')
                world.rec(node, 'method.exit', method='nest', tok=tok, outcome='return')
                return ['nested', code]
        else:
            def nest(tok):  # type: ignore[no-untyped-def,misc]
                world.rec(node, 'method.enter', method='nest', tok=tok, args={}, gen=service.generation)
                code: Any = 'ok'
                d = service.dispatcher
                if d is not None and isinstance(tok, str) and not asyncio.iscoroutinefunction(d.dispatch):
                    code = code_of(d.dispatch(inner_text(tok), None))
                    world.probe('method_reentered_dispatcher')
                world.rec(node, 'method.exit', method='nest', tok=tok, outcome='return')
                return ['nested', code]
        return nest

    @staticmethod
    def _defer(name: str, body: Callable[..., Any], inner: Callable[..., Any]) -> Callable[..., Any]:
        @ft.wraps(body)
        def method(*args: Any, **kwargs: Any) -> Any:
            return inner(*args, **kwargs)
        return method

    def add_flaky(self, netname: str) -> None:
        """``flaky(tok)``: its outcome at each execution is scripted per transport attempt (world.plan)."""
        world, node = self.world, self.node

        def outcome(tok: Any) -> Any:
            script = world.plan.get(('flaky', tok), [])
            k = world.plan.get(('attempt', netname, tok), world.plan.get('attempt:' + netname, 0))
            step = script[k] if k < len(script) else 'ok'
            if step != 'ok':
                raise JsonRpcError(code=step[1], message='scripted failure')
            return tok

        if self.flavour == 'sync':
            def flaky(tok):  # type: ignore[no-untyped-def]
                world.rec(node, 'method.enter', method='flaky', tok=tok, args={})
                return outcome(tok)
        else:
            async def flaky(tok):  # type: ignore[no-untyped-def,misc]
                world.rec(node, 'method.enter', method='flaky', tok=tok, args={})
                for d in world.plan.get(('method', tok), ()):
                    await asyncio.sleep(d)
                return outcome(tok)
        self.methods['flaky'] = flaky
        self.is_coro['flaky'] = self.flavour != 'sync'

    def registry(self, names: Optional[List[str]] = None) -> pjrpc.server.MethodRegistry:
        reg = pjrpc.server.MethodRegistry()
        validator = None
        for name in (names or sorted(self.methods)):
            if name in VIEW_METHODS:
                continue     # registered below, through the view class
            method = self.methods[name]
            if name in INTERNAL:
                import pjrpc.server.validators.base as vbase

                class BrokenValidator(vbase.BaseValidator):
                    def validate_method(self, method: Any, params: Any, exclude: Any = (), **kwargs: Any) -> Any:
                        raise RuntimeError('the validator itself failed')
                method = BrokenValidator().validate(method)
            if name in VALIDATED:
                # ONE schema validator per service, attached the way users do it: a validator-level default schema,
                # ``validator.validate(method, schema=...)`` for methods with their own schema and a bare
                # ``validator.validate(method)`` for methods relying on the default
                if validator is None:
                    import pjrpc.server.validators.jsonschema as vjs
                    validator = vjs.JsonSchemaValidator(schema=DEFAULT_SCHEMA)
                schema = VALIDATED[name][0]
                method = validator.validate(method, schema=schema) if schema is not None else validator.validate(method)
            if name == 'whoami':
                reg.add(method, name='whoami', context='ctx')
                reg.add(method, name='whoami_explicit')      # the same function object, context-less
                continue
            reg.add(method, name=name)
        if names is None or any(v in names for v in VIEW_METHODS):
            # half of the services publish the view with a context whose name is also a parameter name of its method
            # (the context of a view goes to the constructor; the method parameter stays the caller's)
            if self.world.ch.flag(1, 2, 'svc.view_context'):
                reg.view(self._view_class(takes_context=True), context='value')
            else:
                reg.view(self._view_class())
        return reg

    def _view_class(self, takes_context: bool = False) -> Any:
        """A class-based view without context: per-call state lives on ``self`` between its suspension points."""
        world, node, service = self.world, self.node, self
        is_async = self.flavour != 'sync'

        if takes_context:
            class SvcView(pjrpc.server.ViewMixin):
                def __init__(self, context: Any) -> None:
                    super().__init__()
                    self._seen: Any = None
        else:
            class SvcView(pjrpc.server.ViewMixin):  # type: ignore[no-redef]
                def __init__(self) -> None:          # a view registered without context has a constructor of its own
                    super().__init__()
                    self._seen: Any = None

        if is_async:
            async def vecho(self, tok, value=_MISSING):  # type: ignore[no-untyped-def]
                world.rec(node, 'method.enter', method='vecho', tok=tok, args={} if value is _MISSING else {'value': value},
                          gen=service.generation)
                self._seen = tok
                for k, d in enumerate(world.plan.get(('method', tok), ()) if isinstance(tok, str) else ()):
                    await asyncio.sleep(d)
                    world.rec(node, 'method.step', method='vecho', tok=tok, k=k)
                world.rec(node, 'method.exit', method='vecho', tok=tok, outcome='return')
                return [self._seen, None if value is _MISSING else value]
        else:
            def vecho(self, tok, value=_MISSING):  # type: ignore[no-untyped-def,misc]
                world.rec(node, 'method.enter', method='vecho', tok=tok, args={} if value is _MISSING else {'value': value},
                          gen=service.generation)
                self._seen = tok
                world.rec(node, 'method.exit', method='vecho', tok=tok, outcome='return')
                return [self._seen, None if value is _MISSING else value]
        SvcView.vecho = vecho  # type: ignore[attr-defined]

        def vstatic(tok):  # type: ignore[no-untyped-def]
            world.rec(node, 'method.enter', method='vstatic', tok=tok, args={}, gen=service.generation)
            world.rec(node, 'method.exit', method='vstatic', tok=tok, outcome='return')
            return ['static', tok]
        SvcView.vstatic = staticmethod(vstatic)  # type: ignore[attr-defined]
        return SvcView

    def executions(self) -> List[Tuple[str, Any]]:
        return [(r['method'], r['tok']) for r in self.world.history
                if r['node'] == self.node and r['kind'] == 'method.enter']
