"""pjsim - deterministic simulation with fault injection for dapper91/pjrpc.

See /verif/DESIGN.md.  Everything non-deterministic in a run is drawn from one
choice stream (pjsim.choices); time is virtual (pjsim.world / pjsim.loop).
"""
