"""Client classes whose ``_request`` the pytest mocker patches (C20).  The unpatched ``_request`` is the "real
transport": it records that it was reached (passthrough) and answers every call with a canned result."""
from __future__ import annotations

import json
from typing import Any, List, Optional

import pjrpc.client

REAL_CALLS: List[Any] = []      # (endpoint, request text) reached the real transport; reset per run


def _canned(request_text: str) -> Optional[str]:
    doc = json.loads(request_text)

    def one(el: Any) -> Any:
        return {'jsonrpc': '2.0', 'id': el.get('id'), 'result': 'real:' + str(el.get('method'))}
    if isinstance(doc, list):
        out = [one(el) for el in doc if el.get('id') is not None]
        return json.dumps(out) if out else None
    return json.dumps(one(doc)) if doc.get('id') is not None else None


class SimHttpClient(pjrpc.client.AbstractClient):
    def __init__(self, endpoint: str, **kwargs: Any):
        super().__init__(**kwargs)
        self._endpoint = endpoint

    def _request(self, request_text: str, is_notification: bool = False, **kwargs: Any) -> Optional[str]:
        REAL_CALLS.append((self._endpoint, request_text))
        return _canned(request_text)


class SimHttpAsyncClient(pjrpc.client.AbstractAsyncClient):
    def __init__(self, endpoint: str, **kwargs: Any):
        super().__init__(**kwargs)
        self._endpoint = endpoint

    async def _request(self, request_text: str, is_notification: bool = False, **kwargs: Any) -> Optional[str]:
        REAL_CALLS.append((self._endpoint, request_text))
        return _canned(request_text)
