"""Scripted client scenarios: one caller, one request, a per-attempt outcome script, retry strategy, tracers.

The scenario is plain data (drawn first, schedule-independent), so that the same scenario can be executed on
the synchronous and on the asynchronous client (C11) and judged by different oracles (C09, C19).
"""
from __future__ import annotations

import asyncio
from types import SimpleNamespace
from typing import Any, Dict, List, Optional, Tuple

import pjrpc
import pjrpc.client
from pjrpc.client import retry as pj_retry
from pjrpc.common import UNSET
from pjrpc.common.exceptions import JsonRpcError

from . import gen
from .choices import Choices
from .net import SimAbort, SimConnError, SimConnReset, SimOther, SimTimeout
from .ref import retry as ref_retry
from .service import jnorm
from .stack import Stack
from .world import World

LISTED_CODE = 2001
LISTED_CODE2 = -32000
UNLISTED_CODE = 2002

EXC_CLASSES = {'conn': SimConnError, 'timeout': SimTimeout, 'timeout_base': TimeoutError, 'oserror': OSError,
               # client-side verdicts on a reply can be listed too: the next attempt's reply is then judged afresh
               'identity': pjrpc.exceptions.IdentityError, 'exception': Exception}

# outcome -> (weight for single, weight for batch)
OUTCOMES = [
    ('ok', 3, 3), ('err_listed', 5, 2), ('exc_conn', 4, 4), ('exc_reset', 2, 2), ('exc_timeout', 2, 2),
    ('err_unlisted', 2, 1), ('exc_other', 1, 1), ('lost_conn', 2, 2), ('batch_err_listed', 0, 5),
    ('batch_err_unlisted', 0, 2), ('garbage', 1, 1), ('invalid', 1, 1), ('id_mismatch', 1, 1), ('abort', 1, 1),
    # the transport itself ends the attempt with asyncio.CancelledError (a BaseException; a cancelled inner future)
    ('exc_cancelled', 1, 1),
    # the transport raises StopIteration (a canned-replies fake that ran out): an ordinary Exception with special
    # treatment by generators and coroutines; only a synchronous transport can raise it to its caller
    ('exc_stopiter', 1, 1),
]


# --- drawing -----------------------------------------------------------------------------------------------------
def draw_backoff(ch: Choices) -> Dict[str, Any]:
    fam = ch.choice(['periodic', 'exponential', 'fibonacci'], 'backoff.family')
    n = ch.choice([2, 1, 0, 3, 4], 'backoff.attempts')
    b: Dict[str, Any] = {'family': fam, 'attempts': n}
    if fam == 'periodic':
        b['interval'] = ch.choice([1.0, 0.0, 0.25, 2.0, 32.0], 'backoff.interval')
    elif fam == 'exponential':
        b['base'] = ch.choice([1.0, 0.5, 2.0, 0.25], 'backoff.base')
        b['factor'] = ch.choice([2.0, 1.0, 0.5, 3.0], 'backoff.factor')
        b['max_value'] = ch.choice([None, 0.25, 1.0, 3.0], 'backoff.max')
    else:
        b['multiplier'] = ch.choice([1.0, 0.5, 2.0], 'backoff.multiplier')
        b['max_value'] = ch.choice([1.0, None, 0.5, 8.0], 'backoff.max')
    b['jitter'] = 0.0
    # a jitter callable that returns a different value at every call (0.25, 0.5, 0.75, ...)
    b['jitter_seq'] = ch.flag(1, 4, 'backoff.jitter_seq')
    j = ch.choice([0.0, 0.25, 0.5, -0.25], 'backoff.jitter')
    trial = dict(b, jitter=j)
    if all(d >= 0 for d in ref_retry.delays(trial)):
        b['jitter'] = j
    if b['jitter_seq']:
        b['jitter'] = 0.0
    return b


def draw_strategy(ch: Choices) -> Dict[str, Any]:
    return {
        'backoff': draw_backoff(ch),
        'codes': ch.choice([[LISTED_CODE], None, [], [LISTED_CODE, LISTED_CODE2]], 'strategy.codes'),
        'exceptions': ch.choice([['conn'], None, [], ['conn', 'timeout'], ['timeout_base'], ['oserror'], ['identity'],
                                 ['exception'], ['conn', 'identity'], ['oserror', 'conn']], 'strategy.exceptions'),
    }


def draw_scenario(ch: Choices, cancel: bool = False, max_tracers: int = 3) -> Dict[str, Any]:
    kind = ['single', 'batch', 'notify', 'batch_notify'][ch.weighted([6, 4, 2, 1], 'req.kind')]
    via = ch.choice(['send', 'call'], 'req.via')
    n_elems = 1 + ch.draw(3, 'req.n') if kind.startswith('batch') else 1
    elem_notif = [False] * n_elems
    if kind == 'batch' and n_elems > 1:
        elem_notif = [False] + [ch.flag(1, 4, 'req.elem_notif') for _ in range(n_elems - 1)]
    if kind in ('notify', 'batch_notify'):
        elem_notif = [True] * n_elems
    placement = ['client', 'request', 'disabled', 'replaced', 'none'][ch.weighted([5, 3, 1, 2, 1], 'strategy.placement')]
    if via != 'send' and placement in ('request', 'disabled', 'replaced'):
        placement = 'client'
    client_strategy = draw_strategy(ch) if placement in ('client', 'disabled', 'replaced') else None
    request_strategy: Any = 'unset'
    if placement in ('request', 'replaced'):
        request_strategy = draw_strategy(ch)
    elif placement == 'disabled':
        request_strategy = None
    effective = client_strategy if request_strategy == 'unset' else request_strategy
    n = effective['backoff']['attempts'] if effective else 0
    batch = kind.startswith('batch')
    names = [o for o, ws, wb in OUTCOMES]
    weights = [wb if batch else ws for o, ws, wb in OUTCOMES]
    script = []
    for _ in range(n + 2):
        script.append({
            'outcome': names[ch.weighted(weights, 'script.outcome')],
            'pre': ch.choice(gen.DURATIONS, 'script.pre'),
            'post': ch.choice(gen.DURATIONS, 'script.post'),
        })
    scn = {
        'kind': kind, 'via': via, 'n_elems': n_elems, 'elem_notif': elem_notif,
        'placement': placement, 'client_strategy': client_strategy, 'request_strategy': request_strategy,
        'script': script,
        'tracers': ch.draw(max_tracers + 1, 'tracers.n'),
        'trace_ctx': bool(ch.draw(2, 'tracers.ctx')),
        'strict': not ch.flag(1, 5, 'client.nonstrict'),
        'server_async': bool(ch.draw(2, 'server.async')),
        'cancel_at': None,
        'hand_id': ch.choice(gen.REQ_IDS, 'req.hand_id'),
        # the call is issued while the caller is handling an unrelated exception (a fallback call inside `except`)
        'in_except': ch.flag(1, 4, 'caller.in_except'),
        # how ids are generated: the library default, or a user id_gen_impl that hands out ONE long-lived generator
        'id_gen': ch.choice(['default', 'default', 'shared_counter'], 'client.id_gen'),
        # the library's own LoggingTracer configured next to the recording tracers (None = not configured, else its index)
        'lib_tracer': ch.choice([None, None, 0, 1, 9], 'tracers.lib'),
        # what the caller hands over as trace context: a namespace, or an object that accepts no new attributes
        'ctx_kind': ch.choice(['namespace', 'namespace', 'object', 'slots', 'callable'], 'tracers.ctx_kind'),
        'tracer_instance_hooks': ch.flag(1, 3, 'tracers.instance_hooks'),
        # the client takes any iterable of tracers it can walk again: a list, a tuple, a deque, a dict's values view
        'tracer_container': ch.choice(['list', 'list', 'tuple', 'deque', 'dict_values'], 'tracers.container'),
        'hooks': ch.flag(1, 4, 'client.hooks'),
    }
    if cancel and ch.flag(1, 2, 'cancel'):
        scn['cancel_at'] = ch.choice([0.0, 0.125, 0.25, 0.5, 0.75, 1.0, 1.5, 2.0, 2.5, 3.0, 4.0, 33.0], 'cancel.at')
    return scn


def effective_strategy(scn: Dict[str, Any]) -> Optional[Dict[str, Any]]:
    return scn['client_strategy'] if scn['request_strategy'] == 'unset' else scn['request_strategy']


_JITTER_RESETS: List[Any] = []


def build_strategy(desc: Optional[Dict[str, Any]]) -> Optional[pj_retry.RetryStrategy]:
    if desc is None:
        return None
    b = desc['backoff']
    j = b['jitter']
    jitter: Any = (lambda: j)
    if b.get('jitter_seq'):
        calls = {'n': 0}

        def jitter() -> float:  # noqa: F811
            calls['n'] += 1
            return 0.25 * calls['n']

        # the sequence restarts with every request of the scenario, so that how many values an implementation
        # draws ahead for one request (lazily or eagerly) cannot influence the pauses of the next request
        _JITTER_RESETS.append(lambda: calls.__setitem__('n', 0))
    if b['family'] == 'periodic':
        backoff: Any = pj_retry.PeriodicBackoff(attempts=b['attempts'], interval=b['interval'], jitter=jitter)
    elif b['family'] == 'exponential':
        backoff = pj_retry.ExponentialBackoff(attempts=b['attempts'], base=b['base'], factor=b['factor'],
                                              max_value=b['max_value'], jitter=jitter)
    else:
        backoff = pj_retry.FibonacciBackoff(attempts=b['attempts'], multiplier=b['multiplier'],
                                            max_value=b['max_value'], jitter=jitter)
    return pj_retry.RetryStrategy(
        backoff=backoff,
        codes=set(desc['codes']) if desc['codes'] is not None else None,
        exceptions={EXC_CLASSES[n] for n in desc['exceptions']} if desc['exceptions'] is not None else None,
    )


class _SlotsCtx:
    """A caller-supplied trace context that accepts no new attributes."""
    __slots__ = ('mark',)

    def __init__(self) -> None:
        self.mark = 'caller-ctx'


class _CallableCtx:
    """A caller-supplied trace context that happens to be callable (a mock, a factory object)."""

    def __init__(self) -> None:
        self.mark = 'caller-ctx'

    def __call__(self, *args: Any, **kwargs: Any) -> Any:
        return SimpleNamespace(mark='made-by-calling-the-context')


class TracerTrouble(Exception):
    """Raised by a misbehaving tracer."""


# --- recording tracer ----------------------------------------------------------------------------------------------
class RecTracer(pjrpc.client.Tracer):
    def __init__(self, world: World, idx: int, node: str, raises_on_end: bool = False, instance_hooks: bool = False):
        self.world = world
        self.idx = idx
        self.node = node
        self.raises_on_end = raises_on_end   # a misbehaving tracer (used by the twin comparison only)
        if instance_hooks:
            # hooks installed per instance (partials), as tracers configured at run time do
            import functools
            cls = type(self)
            self.on_request_begin = functools.partial(cls.on_request_begin, self)  # type: ignore[method-assign]
            self.on_request_end = functools.partial(cls.on_request_end, self)      # type: ignore[method-assign]
            self.on_error = functools.partial(cls.on_error, self)                  # type: ignore[method-assign]

    def on_request_begin(self, trace_context: Any, request: Any) -> None:
        w = self.world
        w.rec(self.node, 'trace.begin', tracer=self.idx, ctx=w.ordinal(trace_context), req=w.ordinal(request))

    def on_request_end(self, trace_context: Any, request: Any, response: Any) -> None:
        w = self.world
        w.rec(self.node, 'trace.end', tracer=self.idx, ctx=w.ordinal(trace_context), req=w.ordinal(request),
              resp=None if response is None else w.ordinal(response),
              resp_doc=None if response is None else _safe_json(response))
        if self.raises_on_end:
            raise TracerTrouble(f'tracer {self.idx} failed in on_request_end')

    def on_error(self, trace_context: Any, request: Any, error: BaseException) -> None:
        w = self.world
        w.rec(self.node, 'trace.error', tracer=self.idx, ctx=w.ordinal(trace_context), req=w.ordinal(request),
              exc=type(error).__name__, oid=w.ordinal(error))


class RecTracerInst(pjrpc.client.Tracer):
    """The same recording tracer, but its class overrides nothing: the hooks are installed on the instance (partials),
    as tracers assembled at run time do."""

    def __init__(self, world: World, idx: int, node: str, raises_on_end: bool = False):
        import functools
        self.world = world
        self.idx = idx
        self.node = node
        self.raises_on_end = raises_on_end
        self.on_request_begin = functools.partial(RecTracer.on_request_begin, self)  # type: ignore[method-assign,arg-type]
        self.on_request_end = functools.partial(RecTracer.on_request_end, self)      # type: ignore[method-assign,arg-type]
        self.on_error = functools.partial(RecTracer.on_error, self)                  # type: ignore[method-assign,arg-type]


def _safe_json(obj: Any) -> Any:
    try:
        return jnorm(obj.to_json())
    except Exception as e:  # noqa: BLE001
        return {'$unserialisable': type(e).__name__}


# --- execution --------------------------------------------------------------------------------------------------------
class Obs:
    """What one execution of a client scenario showed."""

    def __init__(self) -> None:
        self.outcome: Tuple[Any, ...] = ()
        self.exc: Optional[BaseException] = None
        self.response: Any = None
        self.records: List[Dict[str, Any]] = []
        self.net: Any = None
        self.stack: Optional[Stack] = None
        self.trace_ctx: Any = None
        self.request: Any = None
        self.cancelled_at: Optional[float] = None


def _net_script(scn: Dict[str, Any]) -> List[Dict[str, Any]]:
    out = []
    for step in scn['script']:
        o = step['outcome']
        p: Dict[str, Any] = {'pre': step['pre'], 'post': step['post']}
        if o == 'batch_err_listed':
            p['resp'] = ('batch_error', LISTED_CODE, 'scripted batch error')
        elif o == 'batch_err_unlisted':
            p['resp'] = ('batch_error', UNLISTED_CODE, 'scripted batch error')
        elif o in ('exc_conn', 'exc_reset', 'exc_timeout', 'exc_other', 'abort', 'exc_cancelled', 'exc_stopiter'):
            p['exc'] = {'exc_conn': 'conn', 'exc_reset': 'reset', 'exc_timeout': 'timeout', 'exc_other': 'other',
                        'abort': 'abort', 'exc_cancelled': 'cancelled', 'exc_stopiter': 'stopiter'}[o]
            p['exc_when'] = 'before'
        elif o == 'lost_conn':
            p['exc'] = 'conn'
            p['exc_when'] = 'after'
        elif o == 'blank':
            p['resp'] = ('body_for_notification', step.get('blank', '\n')) if scn['kind'] in ('notify', 'batch_notify') \
                else ('replace', step.get('blank', '\n'))
        elif o == 'garbage':
            p['resp'] = ('not_json', '<<<garbage')
        elif o == 'invalid':
            p['resp'] = ('replace', '{"jsonrpc": "2.0", "id": 1}')
        elif o == 'id_mismatch':
            p['resp'] = ('id', 0, 'foreign', 'zz-foreign')
        out.append(p)
    return out


def _flaky_plan(scn: Dict[str, Any]) -> List[Any]:
    plan = []
    for step in scn['script']:
        o = step['outcome']
        plan.append(('code', LISTED_CODE) if o == 'err_listed' else ('code', UNLISTED_CODE) if o == 'err_unlisted' else 'ok')
    return plan


def describe_outcome(w: World, obs: Obs) -> Tuple[Any, ...]:
    """Schedule-invariant description of what reached the caller."""
    o = obs.outcome
    if o[0] == 'value':
        v = o[1]
        if isinstance(v, (pjrpc.Response, pjrpc.BatchResponse)):
            return ('response', _safe_json(v))
        return ('value', jnorm(v) if not isinstance(v, tuple) else jnorm(list(v)))
    e = o[1]
    if isinstance(e, JsonRpcError):
        return ('error', type(e).__name__, e.code, e.message, None if e.data is UNSET else jnorm(e.data),
                e.data is UNSET)
    return ('raise', type(e).__name__)


def make_op(st: Stack, scn: Dict[str, Any], toks: List[str], obs: 'Obs') -> Any:
    """The caller's operation for one scripted request on ``st.client``: a thunk returning a value (sync client) or an
    awaitable (async client)."""
    cl = st.client
    ctx: Any = None
    if scn['trace_ctx']:
        kind = scn.get('ctx_kind', 'namespace')
        ctx = SimpleNamespace(mark='caller-ctx') if kind == 'namespace' else object() if kind == 'object' else \
            _CallableCtx() if kind == 'callable' else _SlotsCtx()
    obs.trace_ctx = ctx
    kw: Dict[str, Any] = {}
    if ctx is not None:
        kw['_trace_ctx'] = ctx
    send_kw = dict(kw)
    if scn['request_strategy'] != 'unset':
        send_kw['_retry_strategy'] = build_strategy(scn['request_strategy'])
    kind, via = scn['kind'], scn['via']

    if kind == 'single':
        if via == 'call':
            op = lambda: cl.call('flaky', toks[0], **kw)  # noqa: E731
        else:
            obs.request = pjrpc.Request('flaky', [toks[0]], scn['hand_id'])
            op = lambda: cl.send(obs.request, **send_kw)  # noqa: E731
    elif kind == 'notify':
        if via == 'call':
            op = lambda: cl.notify('flaky', toks[0], **kw)  # noqa: E731
        else:
            obs.request = pjrpc.Request('flaky', [toks[0]], None)
            op = lambda: cl.send(obs.request, **send_kw)  # noqa: E731
    else:
        b = cl.batch
        if via == 'call':
            for t, nf in zip(toks, scn['elem_notif']):
                (b.notify if nf else b.add)('flaky', t)
            op = lambda: b.call(**kw)  # noqa: E731
        else:
            ids = [None if nf else f'{scn["hand_id"]}-{k}' for k, nf in enumerate(scn['elem_notif'])]
            obs.request = pjrpc.BatchRequest(*[pjrpc.Request('flaky', [t], i) for t, i in zip(toks, ids)])
            op = lambda: b.send(obs.request, **send_kw)  # noqa: E731

    return op


def run_scenario(w: World, scn: Dict[str, Any], client_async: bool, suffix: str = '', sched: Optional[str] = None,
                 reuse: Optional[Stack] = None, tok_prefix: str = 'f', allow_stopiter: bool = False) -> Obs:
    """Execute one scripted request.  With ``reuse`` the request is issued on an existing (long-lived) client /
    server / network: only the fault script is replaced and the attempt counter restarted."""
    if client_async or not allow_stopiter:
        for step in scn['script']:
            if step['outcome'] == 'exc_stopiter':
                step['outcome'] = 'exc_other'    # (the scenario is shared by both halves of a twin comparison)
    obs = Obs()
    node = 'client' + suffix
    if reuse is None:
        tracers = [(RecTracerInst if (scn.get('tracer_instance_hooks') and i % 2 == 0) else RecTracer)(
            w, i, node, raises_on_end=(scn.get('tracer_raises_on_end') == i)) for i in range(scn['tracers'])]
        if scn.get('lib_tracer') is not None:
            tracers = list(tracers)
            tracers.insert(min(scn['lib_tracer'], len(tracers)), pjrpc.client.tracer.LoggingTracer())
        kind = scn.get('tracer_container', 'list')
        if kind == 'tuple':
            tracers = tuple(tracers)  # type: ignore[assignment]
        elif kind == 'deque':
            import collections
            tracers = collections.deque(tracers)  # type: ignore[assignment]
        elif kind == 'dict_values':
            tracers = {i: t for i, t in enumerate(tracers)}.values()  # type: ignore[assignment]
        ckw: Dict[str, Any] = {'strict': scn['strict'], 'tracers': tracers,
                               'retry_strategy': build_strategy(scn['client_strategy'])}
        if scn.get('id_gen') == 'shared_counter':
            import itertools
            counter = itertools.count(1)
            ckw['id_gen_impl'] = lambda: counter
        if scn.get('hooks'):
            from .hooks import client_hooks
            ckw.update(client_hooks())
        st = Stack(w, client_async, scn['server_async'], None, client_kwargs=ckw, script=_net_script(scn), suffix=suffix,
                   sched=sched)
        st.service.add_flaky(st.net.name)
        st.dispatcher.add_methods(st.service.registry(['flaky']))
    else:
        st = reuse
        st.net.script = _net_script(scn)
        st.net.attempt = 0
        st.net.raised = []
    obs.stack, obs.net = st, st.net
    toks = [f'{tok_prefix}{k}' for k in range(scn['n_elems'])]
    w.plan[('flaky', toks[0])] = _flaky_plan(scn)
    for t in toks[1:]:
        w.plan[('flaky', t)] = ['ok'] * len(scn['script'])
    op = make_op(st, scn, toks, obs)

    for reset in _JITTER_RESETS:
        reset()
    start = len(w.history)
    w.rec(node, 'caller.invoke', req_kind=scn['kind'], via=scn['via'])
    try:
        if client_async:
            value = _run_async(w, st, op, scn.get('cancel_at'), obs, scn.get('in_except', False))
        elif scn.get('in_except'):
            try:
                raise CallerTrouble('the caller is handling this while it makes the call')
            except CallerTrouble:
                value = op()
        else:
            value = op()
        obs.outcome = ('value', value)
        obs.response = value
        w.rec(node, 'caller.return', outcome='value')
    except BaseException as e:  # noqa: BLE001 - the caller's view, including SimAbort / CancelledError
        if isinstance(e, (KeyboardInterrupt, SystemExit)):
            raise
        obs.outcome = ('raise', e)
        obs.exc = e
        w.rec(node, 'caller.return', outcome='raise', exc=type(e).__name__, oid=w.ordinal(e))
    names = {node, st.net.name, st.server.node}
    obs.records = [r for r in w.history[start:] if r['node'] in names or r['kind'] in ('sleep', 'fault')]
    return obs


class CallerTrouble(Exception):
    """An unrelated exception the caller is handling while it issues the call."""


def _run_async(w: World, st: Stack, op: Any, cancel_at: Optional[float], obs: Obs, in_except: bool = False) -> Any:
    loop = st.loop
    assert loop is not None

    async def main() -> Any:
        if in_except:
            try:
                raise CallerTrouble('the caller is handling this while it makes the call')
            except CallerTrouble:
                return await op()
        return await op()

    task = loop.create_task(main())
    if cancel_at is not None:
        def do_cancel() -> None:
            if not task.done():
                obs.cancelled_at = w.now
                w.fault('cancel', at=w.now)
                task.cancel()
        loop.call_at(w.now + cancel_at, do_cancel)
    return loop.run_until_complete(task)


# --- systematic sweeps (forced draws by label) -------------------------------------------------------------------------
def _raw_for_weighted(weights: List[int], index: int) -> int:
    """A raw draw value that a weighted(...) call maps to ``index``."""
    return sum(weights[:index])


def forced_script(kind: str, attempts: int, outcomes: List[str], strategy_variant: int = 0) -> Dict[str, List[int]]:
    """Forced draws that pin request kind, number of attempts and the per-attempt outcome sequence of draw_scenario."""
    kinds = ['single', 'batch', 'notify', 'batch_notify']
    batch = kind.startswith('batch')
    names = [o for o, ws, wb in OUTCOMES]
    weights = [wb if batch else ws for o, ws, wb in OUTCOMES]
    att_index = [2, 1, 0, 3, 4].index(attempts)
    return {
        'req.kind': [_raw_for_weighted([6, 4, 2, 1], kinds.index(kind))],
        'strategy.placement': [_raw_for_weighted([5, 3, 1, 2, 1], 0)],      # client-wide
        'backoff.attempts': [att_index, att_index],
        'strategy.codes': [[0, 3][strategy_variant % 2]],                   # [LISTED] | [LISTED, LISTED2]
        'strategy.exceptions': [[0, 3, 4][strategy_variant % 3]],           # conn | conn+timeout | timeout_base
        'script.outcome': [_raw_for_weighted(weights, names.index(o)) for o in outcomes],
    }
