"""World: virtual clock, global event sequence, history, violations, counters."""
from __future__ import annotations

import hashlib
import json
import re
from collections import Counter
from typing import Any, Dict, List, Optional

from .choices import Choices


class HarnessError(Exception):
    """The simulator itself misbehaved (never reported as a pass or as a violation)."""


class StepCapExceeded(Exception):
    """A run exceeded its step cap (reported by the property as a liveness violation)."""


_ADDR = re.compile(r'0x[0-9a-fA-F]{6,}')
_RESERVED = frozenset(('seq', 'vt', 'node', 'kind'))


def canon(value: Any) -> Any:
    """Canonical, interpreter-independent JSON-able form of a recorded value."""
    if value is None or isinstance(value, (bool, int, str)):
        return value
    if isinstance(value, float):
        if value != value or value in (float('inf'), float('-inf')):
            return {'$float': repr(value)}
        return value
    if isinstance(value, (list, tuple)):
        return [canon(v) for v in value]
    if isinstance(value, dict):
        return {str(k): canon(v) for k, v in sorted(value.items(), key=lambda kv: str(kv[0]))}
    if isinstance(value, (set, frozenset)):
        return sorted((canon(v) for v in value), key=lambda v: json.dumps(v, sort_keys=True))
    if isinstance(value, type):
        return {'$type': value.__name__}
    if isinstance(value, BaseException):
        return {'$exc': type(value).__name__}
    return {'$obj': type(value).__name__}


class Violation:
    __slots__ = ('prop', 'clause', 'message', 'ctx', 'seq')

    def __init__(self, prop: str, clause: str, message: str, ctx: Dict[str, Any], seq: int):
        self.prop = prop
        self.clause = clause
        self.message = message
        self.ctx = ctx
        self.seq = seq

    def to_json(self) -> Dict[str, Any]:
        return {'property': self.prop, 'clause': self.clause, 'message': self.message,
                'ctx': canon(self.ctx), 'seq': self.seq}


class World:
    """One simulated execution's shared state."""

    def __init__(self, ch: Choices, prop: str = '', step_cap: int = 200000):
        self.ch = ch
        self.prop = prop
        self.now: float = 0.0
        self.seq: int = 0
        self.history: List[Dict[str, Any]] = []
        self.violations: List[Violation] = []
        self.faults: Counter = Counter()       # fault kind -> times fired
        self.faults_cfg: Counter = Counter()   # fault kind -> times enabled in a config
        self.probes: Counter = Counter()       # rare-branch probes
        self.sched: Counter = Counter()        # scheduler policy -> runs
        self.sched_decisions = 0               # decisions with more than one alternative
        self.sched_trace: List[List[int]] = []
        self.steps = 0
        self.step_cap = step_cap
        self.scenario: Dict[str, Any] = {}     # expanded human-readable scenario
        self.sig_parts: List[Any] = []         # interleaving signature parts
        self._ordinals: Dict[int, int] = {}
        self._ordinal_keep: List[Any] = []     # strong refs, so id() is never reused within a run
        self.recording = True
        self.nontrivial = False                # set by a scenario that exercised more than the trivial path
        self.cleanup: List[Any] = []            # callables run (in reverse) when the run ends
        self.plan: Dict[Any, Any] = {}          # pre-drawn callee scripts: suspension delays, outcomes

    # -- history -------------------------------------------------------------
    def rec(self, node: str, kind: str, /, **fields: Any) -> int:
        if fields.keys() & _RESERVED:
            raise HarnessError(f'reserved record field in {sorted(fields)}')
        self.seq += 1
        if self.recording:
            r = {'seq': self.seq, 'vt': self.now, 'node': node, 'kind': kind}
            for k, v in fields.items():
                r[k] = canon(v)
            self.history.append(r)
        return self.seq

    def ordinal(self, obj: Any) -> int:
        """Per-run ordinal standing for an object's identity (keeps the object alive)."""
        k = id(obj)
        o = self._ordinals.get(k)
        if o is None:
            o = len(self._ordinals) + 1
            self._ordinals[k] = o
            self._ordinal_keep.append(obj)
        return o

    def tick(self) -> None:
        self.steps += 1
        if self.steps > self.step_cap:
            raise StepCapExceeded(f'step cap {self.step_cap} exceeded')

    # -- violations / counters -------------------------------------------------
    def violate(self, clause: str, message: str, **ctx: Any) -> None:
        message = _ADDR.sub('0x..', message)   # object addresses differ between interpreters
        self.violations.append(Violation(self.prop, clause, message, ctx, self.seq))
        self.rec('oracle', 'violation', clause=clause, message=message)

    def fault(self, kind: str, **fields: Any) -> None:
        self.faults[kind] += 1
        self.rec('net', 'fault', fault=kind, **fields)

    def probe(self, name: str) -> None:
        self.probes[name] += 1

    # -- digest -----------------------------------------------------------------
    def digest(self) -> str:
        blob = json.dumps(self.history, sort_keys=True, separators=(',', ':'), ensure_ascii=True)
        return hashlib.sha256(blob.encode()).hexdigest()

    def signature(self) -> str:
        """Interleaving signature: digest of the order-revealing parts a property chose to record."""
        blob = json.dumps(canon(self.sig_parts), sort_keys=True, separators=(',', ':'))
        return hashlib.sha256(blob.encode()).hexdigest()[:16]

    def select(self, node: Optional[str] = None, kind: Optional[str] = None) -> List[Dict[str, Any]]:
        return [r for r in self.history
                if (node is None or r['node'] == node) and (kind is None or r['kind'] == kind)]
