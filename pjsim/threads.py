"""Baton threads: real threads of which exactly one runs at a time; the choice of who runs is seeded.

Each worker thread installs ``sys.settrace``; a ``line`` event in a file under the pjrpc package (or in a file
registered as instrumented) is a pre-emption point where the scheduler may draw "switch to thread k" and hand
the baton over (semaphore hand-off).  Pre-emption points are restricted to those files so that a thread is
never parked while it holds a lock of logging, functools or a dependency.
"""
from __future__ import annotations

import os
import sys
import threading
from typing import Any, Callable, List, Optional

import pjrpc

from .world import HarnessError, World

PJRPC_DIR = os.path.dirname(os.path.abspath(pjrpc.__file__)) + os.sep
STALL_TIMEOUT = 60.0


class BatonScheduler:
    def __init__(self, world: World, switch_den: int = 8, extra_files: Optional[List[str]] = None, max_switches: int = 4000):
        self.world = world
        self.switch_den = switch_den
        self.prefixes = [PJRPC_DIR] + list(extra_files or [])
        self.sems: List[threading.Semaphore] = []
        self.done: List[bool] = []
        self.errors: List[Optional[BaseException]] = []
        self.results: List[Any] = []
        self.switches = 0
        self.points = 0
        self.max_switches = max_switches
        self.finished = threading.Semaphore(0)
        self.stalled = False

    # -- called only by the thread that holds the baton --------------------------------------------------------
    def _runnable(self, exclude: int) -> List[int]:
        return [i for i, d in enumerate(self.done) if not d and i != exclude]

    def _maybe_switch(self, me: int) -> None:
        self.points += 1
        others = self._runnable(me)
        if not others or self.switches >= self.max_switches:
            return
        ch = self.world.ch
        if not ch.flag(1, self.switch_den, 'thread.switch'):
            return
        target = others[ch.draw(len(others), 'thread.pick')]
        self.switches += 1
        self.world.sched_decisions += 1
        self.world.sched_trace.append([me, target])
        self.sems[target].release()
        if not self.sems[me].acquire(timeout=STALL_TIMEOUT):
            self.stalled = True
            raise HarnessError('baton hand-off was not answered (harness stall)')

    def _tracer(self, me: int) -> Callable[..., Any]:
        prefixes = tuple(self.prefixes)

        def local(frame: Any, event: str, arg: Any) -> Any:
            if event == 'line':
                self._maybe_switch(me)
            return local

        def glob(frame: Any, event: str, arg: Any) -> Any:
            if event == 'call' and frame.f_code.co_filename.startswith(prefixes):
                return local
            return None

        return glob

    def _body(self, me: int, fn: Callable[[], Any]) -> None:
        if not self.sems[me].acquire(timeout=STALL_TIMEOUT):
            self.stalled = True
            self.finished.release()
            return
        try:
            sys.settrace(self._tracer(me))
            try:
                self.results[me] = fn()
            finally:
                sys.settrace(None)
        except BaseException as e:  # noqa: BLE001
            self.errors[me] = e
        finally:
            self.done[me] = True
            nxt = self._runnable(me)
            if nxt:
                # who continues after a thread ends is a scheduling decision too
                target = nxt[self.world.ch.draw(len(nxt), 'thread.next')] if not self.stalled else nxt[0]
                self.sems[target].release()
            else:
                self.finished.release()

    def run(self, fns: List[Callable[[], Any]]) -> List[Any]:
        n = len(fns)
        self.sems = [threading.Semaphore(0) for _ in range(n)]
        self.done = [False] * n
        self.errors = [None] * n
        self.results = [None] * n
        threads = [threading.Thread(target=self._body, args=(i, fn), daemon=True) for i, fn in enumerate(fns)]
        for t in threads:
            t.start()
        first = self.world.ch.draw(n, 'thread.first')
        self.sems[first].release()
        if not self.finished.acquire(timeout=STALL_TIMEOUT * 4):
            self.stalled = True
        for t in threads:
            t.join(timeout=5.0)
        if self.stalled or any(t.is_alive() for t in threads):
            raise HarnessError('baton threads stalled')
        for e in self.errors:
            if isinstance(e, HarnessError):
                raise e
        self.world.sched['threads'] += 1
        self.world.probes['thread.preemption_points'] += self.points
        self.world.probes['thread.switches'] += self.switches
        return self.results
