"""SimLoop: a virtual-time asyncio event loop whose every scheduling decision is seeded.

No selector, no sockets, no threads, no real clock.  ``time()`` is the world's
virtual clock; when nothing is ready the clock jumps to the next timer.  One
ready handle is run per iteration, chosen by the scheduler policy:

* ``fifo``   - asyncio's own order (what every ordinary test sees);
* ``random`` - uniform pick among the ready handles (0 = head of the queue);
* ``pct``    - PCT-style: seeded task priorities with ``depth`` priority change points;
* ``lifo``   - always the most recently readied handle (starves old work as long as new work appears).
"""
from __future__ import annotations

import asyncio
import heapq
import weakref
from typing import Any, Dict, List, Optional

from .world import HarnessError, StepCapExceeded, World


class SimDeadlock(Exception):
    """Nothing ready, nothing scheduled, and the loop was not asked to stop."""


class SimLoop(asyncio.BaseEventLoop):
    def __init__(self, world: World, policy: str = 'fifo', pct_depth: int = 2, pct_horizon: int = 64):
        super().__init__()
        self.world = world
        self.policy = policy
        self.loop_errors: List[Dict[str, Any]] = []
        self.set_exception_handler(self._on_loop_error)
        world.sched[policy] += 1
        # task -> priority (higher runs first); weak, so the loop never keeps a finished task (and through it a
        # coroutine frame, a context or a response) alive - C13 asks the garbage collector what survived
        self._prio: Any = weakref.WeakKeyDictionary()
        self._pct_points: List[int] = []
        self._pct_low = 0
        self._steps = 0
        self._settle_fut: Any = None
        if policy == 'pct':
            pts = sorted(world.ch.int_between(1, pct_horizon, 'pct.point') for _ in range(pct_depth))
            self._pct_points = pts
        elif policy not in ('fifo', 'random', 'lifo'):
            raise HarnessError(f'unknown scheduler policy {policy!r}')

    # -- the seams ------------------------------------------------------------
    def time(self) -> float:
        return self.world.now

    def _process_events(self, event_list: Any) -> None:  # no I/O
        pass

    def _write_to_self(self) -> None:  # no self-pipe
        pass

    def _on_loop_error(self, loop: Any, context: Dict[str, Any]) -> None:
        self.loop_errors.append({'message': context.get('message'), 'exception': repr(context.get('exception'))})

    # -- the scheduler -----------------------------------------------------------
    def _task_of(self, handle: Any) -> Optional[Any]:
        owner = getattr(handle._callback, '__self__', None)
        return owner if isinstance(owner, asyncio.Task) else None

    def _priority(self, task: Any) -> int:
        p = self._prio.get(task)
        if p is None:
            # a new task gets a seeded priority above all "lowered" ones
            p = 1000 + self.world.ch.draw(1000, 'pct.prio')
            self._prio[task] = p
        return p

    def _pick(self, ready: List[Any]) -> int:
        n = len(ready)
        if n == 1 or self.policy == 'fifo':
            return 0
        w = self.world
        w.sched_decisions += 1
        if self.policy == 'lifo':
            if w.recording:
                w.sched_trace.append([n, n - 1])
            return n - 1
        if self.policy == 'random':
            i = w.ch.draw(n, 'sched.pick')
            if w.recording:
                w.sched_trace.append([n, i])
            return i
        # pct: handles that are not task steps run first, in FIFO order
        best_i, best_p = -1, -1
        for i, h in enumerate(ready):
            t = self._task_of(h)
            if t is None:
                if w.recording:
                    w.sched_trace.append([n, i])
                return i
            p = self._priority(t)
            if p > best_p:
                best_i, best_p = i, p
        if w.recording:
            w.sched_trace.append([n, best_i])
        return best_i

    def _run_once(self) -> None:
        w = self.world
        sched = self._scheduled
        while sched and sched[0]._cancelled:
            h = heapq.heappop(sched)
            h._scheduled = False
        ready = self._ready
        settle = self._settle_fut
        if settle is not None and not any(not h._cancelled for h in ready):
            # quiescent at the current virtual instant: everything that was runnable has run
            self._settle_fut = None
            settle.set_result(None)
        if not ready and sched and not self._stopping:
            when = sched[0]._when
            if when > w.now:
                w.now = when
        while sched and sched[0]._when <= w.now:
            h = heapq.heappop(sched)
            h._scheduled = False
            if not h._cancelled:
                ready.append(h)
        if self._stopping and not ready:
            return
        live = [h for h in ready if not h._cancelled]
        if not live:
            ready.clear()
            if self._stopping:
                return
            if sched:
                return
            raise SimDeadlock('no ready callback and no timer: the awaited work can never complete')
        w.steps += 1
        if w.steps > w.step_cap:
            raise StepCapExceeded(f'step cap {w.step_cap} exceeded in event loop')
        i = self._pick(live)
        handle = live[i]
        ready.clear()
        for j, h in enumerate(live):
            if j != i:
                ready.append(h)
        self._steps += 1
        if self._pct_points and self._steps >= self._pct_points[0]:
            self._pct_points.pop(0)
            t = self._task_of(handle)
            if t is not None:
                self._pct_low += 1
                self._prio[t] = 100 - self._pct_low
        handle._run()
        handle = None


def settle(loop: 'SimLoop') -> None:
    """Run everything that is runnable *now* (no clock jump): used before asking the collector what survived."""
    fut = loop.create_future()
    loop._settle_fut = fut
    loop.run_until_complete(fut)


def new_loop(world: World, policy: Optional[str] = None) -> SimLoop:
    """Create a SimLoop (policy drawn from the world's choice stream unless given) and install it."""
    if policy is None:
        policy = ('fifo', 'random', 'pct', 'lifo')[world.ch.weighted([2, 3, 2, 1], 'sched.policy')]
    loop = SimLoop(world, policy)
    asyncio.set_event_loop(loop)
    return loop


def close_loop(loop: SimLoop) -> None:
    """Cancel what is left, run the loop until quiet, close it."""
    try:
        pending = [t for t in asyncio.all_tasks(loop) if not t.done()]
        for t in pending:
            t.cancel()
        if pending:
            try:
                loop.run_until_complete(asyncio.gather(*pending, return_exceptions=True))
            except BaseException:
                pass
    finally:
        asyncio.set_event_loop(None)
        loop.close()
