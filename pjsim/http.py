"""In-process HTTP hops through pjrpc's aiohttp / Flask / Werkzeug integrations (no sockets, no servers).

* Flask, Werkzeug: the frameworks' WSGI test clients call the application object directly.
* aiohttp: the handler is resolved by the application's router and awaited on the SimLoop with a mocked
  request whose payload is a real ``StreamReader`` fed with the body bytes.

``dispatcher.dispatch`` is wrapped on the instance to record the verdict handed to the integration.
"""
from __future__ import annotations

import asyncio
from typing import Any, Callable, Dict, List, Optional, Tuple
from unittest import mock

import flask
import werkzeug
import werkzeug.test
from aiohttp import streams, web
from aiohttp.test_utils import make_mocked_request

import pjrpc.server
from pjrpc.server.integration import aiohttp as pj_aiohttp
from pjrpc.server.integration import flask as pj_flask
from pjrpc.server.integration import werkzeug as pj_werkzeug

from .service import Service
from .stack import ensure_loop
from .world import World

STATUS_FUNCTIONS: Dict[str, Callable[[Tuple[int, ...]], int]] = {
    'default': lambda codes: 200,
    'any_error_500': lambda codes: 500 if any(codes) else 200,
    'first_code': lambda codes: 200 if not codes or codes[0] == 0 else (404 if codes[0] == -32601 else 400),
    'all_errors_422': lambda codes: 422 if codes and all(codes) else 200,
    # functions that are only defined for the codes of an actual reply (an empty tuple never reaches them)
    'multi_207': lambda codes: 200 if len(codes) == 1 else 207,
    'strict_first': lambda codes: 200 if codes[0] == 0 else 400,
}


class _Log(list):
    """(request text, verdict) pairs; ``labels`` names the endpoint whose dispatcher produced each."""

    def __init__(self) -> None:
        super().__init__()
        self.labels: List[str] = []


class HopResult:
    def __init__(self) -> None:
        self.status: Optional[int] = None
        self.ctype: Optional[str] = None
        self.body: bytes = b''
        self.raised: Optional[BaseException] = None
        self.dispatched: List[Tuple[str, Any]] = []   # (request text, verdict)
        self.endpoints: List[str] = []                # which endpoint's dispatcher was used
        self.replies_written: Optional[int] = None    # aiohttp: HTTP replies actually written for this request

    def media_type(self) -> Optional[str]:
        return self.ctype.split(';')[0].strip().lower() if self.ctype else None


def _wrap_dispatch(w: World, dispatcher: Any, node: str, log: List[Tuple[str, Any]], label: str = 'main') -> None:
    orig = dispatcher.dispatch
    labels = log.labels  # type: ignore[attr-defined]
    if asyncio.iscoroutinefunction(orig):
        async def adispatch(request_text: str, context: Any = None) -> Any:
            try:
                verdict = await orig(request_text, context)
            except Exception as e:  # noqa: BLE001
                log.append((request_text, ('$raised', e)))
                w.rec(node, 'http.dispatch_raised', exc=type(e).__name__)
                raise
            log.append((request_text, verdict))
            labels.append(label)
            w.rec(node, 'http.verdict', endpoint=label, text=request_text if len(request_text) < 300 else request_text[:300],
                  verdict=None if verdict is None else [verdict[0], list(verdict[1])])
            return verdict
        dispatcher.dispatch = adispatch
    else:
        def dispatch(request_text: str, context: Any = None) -> Any:
            try:
                verdict = orig(request_text, context)
            except Exception as e:  # noqa: BLE001
                log.append((request_text, ('$raised', e)))
                w.rec(node, 'http.dispatch_raised', exc=type(e).__name__)
                raise
            log.append((request_text, verdict))
            labels.append(label)
            w.rec(node, 'http.verdict', endpoint=label, text=request_text if len(request_text) < 300 else request_text[:300],
                  verdict=None if verdict is None else [verdict[0], list(verdict[1])])
            return verdict
        dispatcher.dispatch = dispatch


class FlaskHop:
    name = 'flask'
    has_status_fn = True

    def __init__(self, w: World, path: str, sub: Optional[str], status_fn: str, dispatcher_kwargs: Dict[str, Any],
                 blueprint_prefix: Optional[str] = None, earlier_app: bool = False, sub_blueprint: bool = False):
        self.w = w
        self.node = 'flask'
        self.log: Any = _Log()
        self._seen = 0
        self.service = Service(w, 'sync', node=self.node)
        self.app = flask.Flask('pjsim_flask')
        self.rpc = pj_flask.JsonRPC(path, status_by_error=STATUS_FUNCTIONS[status_fn], error_handlers={}, **dispatcher_kwargs)
        self.rpc.dispatcher.add_methods(self.service.registry())
        _wrap_dispatch(w, self.rpc.dispatcher, self.node, self.log)
        # a second, independent extension object on the same application, created before the first is initialised
        # (module-level extensions wired up later in an application factory)
        self.other = pj_flask.JsonRPC('/other' + path.rstrip('/'), status_by_error=STATUS_FUNCTIONS[status_fn],
                                      error_handlers={}, **dispatcher_kwargs)
        self.other.dispatcher.add_methods(self.service.registry(['echo']))
        _wrap_dispatch(w, self.other.dispatcher, self.node, self.log, 'other')
        self.sub_url_prefix, self.sub_path = '', (sub or '').rstrip('/')
        if sub:
            if sub_blueprint and not earlier_app:
                # the additional endpoint is served on a blueprint of its own, mounted under a URL prefix
                sbp = flask.Blueprint('pjsim_sub_bp', 'pjsim_flask', url_prefix='/private')
                d = self.rpc.add_endpoint(sub, blueprint=sbp, error_handlers={}, **dispatcher_kwargs)
                # (when the extension itself is initialised on a blueprint, the sub-blueprint is nested in it)
                self.sub_url_prefix = (blueprint_prefix or '') + '/private'
                w.probe('flask.sub_endpoint_on_blueprint')
            else:
                d = self.rpc.add_endpoint(sub, error_handlers={}, **dispatcher_kwargs)
            d.add_methods(self.service.registry())
            _wrap_dispatch(w, d, self.node, self.log, 'sub')
        if earlier_app:
            # an application factory that has been called before (one application per test, a second worker ...): the
            # module-level extension objects were already initialised for another application
            first = flask.Flask('pjsim_flask_first')
            self.rpc.init_app(first)
            self.other.init_app(first)
            w.probe('flask.extension_initialised_for_an_earlier_app')
        if blueprint_prefix:
            # the README layout: the extension is initialised on a blueprint that is mounted under a URL prefix
            bp = flask.Blueprint('pjsim_bp', 'pjsim_flask', url_prefix=blueprint_prefix)
            self.rpc.init_app(bp)
            self.app.register_blueprint(bp)
        else:
            self.rpc.init_app(self.app)
        self.other.init_app(self.app)
        self.url_prefix = blueprint_prefix or ''
        self.client = self.app.test_client()

    def post(self, url: str, body: bytes, content_type: Optional[str]) -> HopResult:
        res = HopResult()
        kw: Dict[str, Any] = {'content_type': content_type} if content_type is not None else {}
        try:
            is_sub = bool(self.sub_path) and url.endswith(self.sub_path)
            prefix = self.sub_url_prefix if (is_sub and self.sub_url_prefix) else self.url_prefix
            r = self.client.post(prefix + url, data=body, **kw)
            res.status, res.ctype, res.body = r.status_code, r.headers.get('Content-Type'), r.get_data()
        except Exception as e:  # noqa: BLE001
            res.raised = e
        res.dispatched = list(self.log)[self._seen:]
        res.endpoints = list(self.log.labels)[self._seen:]
        self._seen = len(self.log)
        return res


class WerkzeugHop:
    name = 'werkzeug'
    has_status_fn = False

    def __init__(self, w: World, path: str, sub: Optional[str], status_fn: str, dispatcher_kwargs: Dict[str, Any]):
        self.w = w
        self.node = 'werkzeug'
        self.log: Any = _Log()
        self._seen = 0
        self.service = Service(w, 'sync', node=self.node)
        self.rpc = pj_werkzeug.JsonRPC(path, error_handlers={}, **dispatcher_kwargs)
        self.rpc.dispatcher.add_methods(self.service.registry())
        _wrap_dispatch(w, self.rpc.dispatcher, self.node, self.log)
        self.client = werkzeug.test.Client(self.rpc)

    def post(self, url: str, body: bytes, content_type: Optional[str]) -> HopResult:
        res = HopResult()
        kw: Dict[str, Any] = {'content_type': content_type} if content_type is not None else {}
        try:
            r = self.client.post(url, data=body, **kw)
            res.status, res.ctype, res.body = r.status_code, r.headers.get('Content-Type'), r.get_data()
        except Exception as e:  # noqa: BLE001
            res.raised = e
        res.dispatched = list(self.log)[self._seen:]
        res.endpoints = list(self.log.labels)[self._seen:]
        self._seen = len(self.log)
        return res


class AiohttpHop:
    name = 'aiohttp'
    has_status_fn = True

    def __init__(self, w: World, path: str, sub: Optional[str], status_fn: str, dispatcher_kwargs: Dict[str, Any],
                 flavour: str = 'async', mounted: Optional[str] = None):
        self.w = w
        self.node = 'aiohttp'
        self.mounted = mounted
        self.loop = ensure_loop(w)
        self.log: Any = _Log()
        self._seen = 0
        self.service = Service(w, flavour, node=self.node)
        self.rpc = pj_aiohttp.Application(path, status_by_error=STATUS_FUNCTIONS[status_fn], error_handlers={},
                                          **dispatcher_kwargs)
        self.rpc.dispatcher.add_methods(self.service.registry())
        _wrap_dispatch(w, self.rpc.dispatcher, self.node, self.log)
        if sub:
            d = self.rpc.add_endpoint(sub, error_handlers={}, **dispatcher_kwargs)
            d.add_methods(self.service.registry())
            _wrap_dispatch(w, d, self.node, self.log, 'sub')
        self.routing_app = self.rpc.app
        if mounted:
            # the JSON-RPC application is a sub-application of a parent aiohttp application, mounted under a prefix
            parent = web.Application()
            parent.add_subapp(mounted, self.rpc.app)
            self.routing_app = parent
            w.probe('aiohttp.mounted_as_subapp')

    def post(self, url: str, body: bytes, content_type: Optional[str],
             pieces: Optional[List[Tuple[float, int]]] = None) -> HopResult:
        """``pieces``: network delivery of the body as [(delay before this piece, number of bytes)], the first piece
        being there when the handler starts; the rest arrives on the virtual clock while the handler is running."""
        res = HopResult()
        loop = self.loop
        app = self.routing_app
        url = (self.mounted or '') + url
        w = self.w

        async def go() -> None:
            headers = {'Content-Type': content_type} if content_type is not None else {}
            headers['Content-Length'] = str(len(body))
            sr = streams.StreamReader(mock.Mock(), 2 ** 16, loop=loop)
            if not pieces:
                sr.feed_data(body)
                sr.feed_eof()
            else:
                chunks, pos = [], 0
                for idx, (_, n) in enumerate(pieces):
                    chunk = body[pos:pos + n] if idx < len(pieces) - 1 else body[pos:]
                    pos += len(chunk)
                    chunks.append(chunk)

                def feed(idx: int) -> None:
                    # segments arrive in order (TCP): each arrival schedules the next one
                    if chunks[idx]:
                        sr.feed_data(chunks[idx])
                    if idx == len(chunks) - 1:
                        sr.feed_eof()
                    else:
                        loop.call_later(pieces[idx + 1][0], feed, idx + 1)
                feed(0)
                w.fault('body_in_pieces', pieces=len(pieces))
            req = make_mocked_request('POST', url, headers=headers, payload=sr, app=app, loop=loop)
            match = await app.router.resolve(req)
            try:
                resp = await match.handler(req)
            except web.HTTPException as e:
                resp = e
            res.status = resp.status
            res.ctype = resp.headers.get('Content-Type')
            b = getattr(resp, 'body', None)
            res.body = b if isinstance(b, (bytes, bytearray)) else (resp.text.encode() if getattr(resp, 'text', None) else b'')
            # what aiohttp's server does next with the handler's return value: write the reply on this connection
            await resp.prepare(req)
            await resp.write_eof()
            writer = req._payload_writer
            res.replies_written = writer.write_headers.call_count
            if writer.write_headers.call_count:
                line = writer.write_headers.call_args_list[0].args[0]
                try:
                    res.status = int(str(line).split()[1])
                except (IndexError, ValueError):
                    pass

        try:
            loop.run_until_complete(go())
        except Exception as e:  # noqa: BLE001
            res.raised = e
        res.dispatched = list(self.log)[self._seen:]
        res.endpoints = list(self.log.labels)[self._seen:]
        self._seen = len(self.log)
        return res


HOPS = {'aiohttp': AiohttpHop, 'flask': FlaskHop, 'werkzeug': WerkzeugHop}
