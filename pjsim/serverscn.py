"""Server-side scenarios: request documents (well-behaved, corrupted, hostile), dispatcher configurations,
instrumented middlewares and error handlers, and the shared oracles of C01 / C02 / C03 / C10 / C12.
"""
from __future__ import annotations

import asyncio
import inspect
import json
from typing import Any, Callable, Dict, List, Optional, Tuple

import pjrpc
import pjrpc.server
from pjrpc.common import UNSET, UnsetType
from pjrpc.common.exceptions import JsonRpcError

from . import faults as F
from . import gen
from .choices import Choices
from .loop import SimLoop
from .net import ServerCrashed, ServerNode
from .ref import jsonrpc as R
from .service import BODIES, EXC_CLASS_NAMES, INTERNAL, MARKER, NODATA, SIGNATURES, VALIDATED, ProtoFailure, Service
from .stack import ensure_loop, fresh_loop
from .world import World

METHOD_MODELS = {name: R.MethodModel(SIGNATURES[name], BODIES[name], VALIDATED[name][1] if name in VALIDATED else None,
                                     internal=name in INTERNAL)
                 for name in BODIES}


def _ref_whoami(tok):            # the context is injected, the caller passes the token only
    from . import service as _svc
    return [tok, _svc.CURRENT_CONTEXT_MARK[0]]


def _ref_whoami_explicit(tok, ctx):   # no context: ``ctx`` is whatever JSON value the caller passed
    return [tok, None]


def _ref_echo_guarded(tok):       # the same function as echo; ``value`` is hidden from the caller
    return None


METHOD_MODELS['echo_guarded'] = R.MethodModel(inspect.signature(_ref_echo_guarded), _ref_echo_guarded)
UNICODE_METHOD = '\u043d\u0435\u0442/none \u2713 \U0001F600'
METHOD_MODELS[UNICODE_METHOD] = METHOD_MODELS['none']
PUBLISHED_AS = {'echo_guarded': 'echo', UNICODE_METHOD: 'none'}     # the function records its executions under its own name
from .ref import chain as _ref_chain  # noqa: E402
_ref_chain.PUBLISHED_AS.update(PUBLISHED_AS)
METHOD_MODELS['whoami'] = R.MethodModel(inspect.signature(_ref_whoami), _ref_whoami)
METHOD_MODELS['whoami_explicit'] = R.MethodModel(inspect.signature(_ref_whoami_explicit), _ref_whoami_explicit)

ELEMENT_IDS: List[Any] = [1, 0, -1, 2, 3, 'abc', '', '1', 2 ** 62, 'id-é', 7, '0', -7, 'x']


# --- documents -----------------------------------------------------------------------------------------------------
def gen_element(ch: Choices, tok: str, id_: Any, notification: bool, exotic: bool = False,
                reentrant: bool = False) -> Tuple[Dict[str, Any], str]:
    """One request element (a JSON object) and its kind."""
    kind = ['ok', 'unknown', 'nobind', 'proto', 'exc', 'invalid', 'novalidate', 'internal'][
        ch.weighted([6, 2, 3, 3, 3, 2, 2, 1], 'el.kind')]
    if kind in ('ok', 'proto', 'exc'):
        c = None
        for _ in range(8):
            c = gen.logical_call(ch, tok, allow_fail=kind != 'ok', allow_notification=False,
                                 extra_codes=(0,), extra_messages=('',), exotic=exotic, ctx_methods=True,
                                 reentrant=reentrant)
            is_fail = c.method.startswith('fail')
            if (kind == 'ok' and not is_fail) or (kind == 'proto' and c.method in ('fail_proto', 'fail_typed')) or \
                    (kind == 'exc' and c.method == 'fail_exc'):
                break
        assert c is not None
        el: Dict[str, Any] = {'jsonrpc': '2.0', 'method': c.method}
        if c.args or c.kwargs:
            el['params'] = list(c.args) if c.args else dict(c.kwargs)
    elif kind == 'unknown':
        el = {'jsonrpc': '2.0', 'method': ch.choice(['nosuch', '', 'Echo', 'echo ', '_private', 'echo.echo'], 'el.unknown'),
              'params': [tok]}
    elif kind == 'nobind':
        el = {'jsonrpc': '2.0', 'method': 'pair'}
        el['params'] = ch.choice([
            [tok], [tok, 1, 2, 3], {'tok': tok}, {'tok': tok, 'x': 1, 'y': 2, 'zzz': 3}, {'tok': tok, 'x': 1},
            [], {}, {'tok': tok, 'x': 1, 'y': 2, '': 0},
        ], 'el.nobind')
        if not el['params'] and ch.draw(2, 'el.noparams'):
            del el['params']
        if ch.flag(1, 5, 'el.nobind.ctx'):
            # the context parameter belongs to the library where it is injected, and to the caller where it is not
            el = ch.choice([{'jsonrpc': '2.0', 'method': 'whoami', 'params': [tok, 'me']},
                            {'jsonrpc': '2.0', 'method': 'whoami', 'params': {'ctx': 'me', 'tok': tok}},
                            {'jsonrpc': '2.0', 'method': 'whoami_explicit', 'params': [tok]},
                            {'jsonrpc': '2.0', 'method': 'whoami_explicit', 'params': {'tok': tok}}], 'el.nobind.ctx.el')
        if ch.flag(1, 6, 'el.nobind.guarded'):
            el = {'jsonrpc': '2.0', 'method': 'echo_guarded',
                  'params': ch.choice([[tok, 5], {'tok': tok, 'value': 5}, [tok, None]], 'el.nobind.guarded.params')}
        if ch.flag(1, 4, 'el.nobind.kwonly'):
            # keyword-only parameters given by position: as many values as the method has parameters, but they do not bind
            el = {'jsonrpc': '2.0', 'method': 'kwonly',
                  'params': ch.choice([[tok, True], [tok, True, 2], [tok, 5], {'tok': tok, 'flag': True, 'zzz': 1}],
                                      'el.nobind.kwonly.params')}
    elif kind == 'internal':
        el = {'jsonrpc': '2.0', 'method': 'explode', 'params': [tok]}
    elif kind == 'novalidate':
        # binds to the signature but does not satisfy the schema attached to the method
        if ch.flag(1, 3, 'el.novalidate.default'):
            el = {'jsonrpc': '2.0', 'method': 'typed_default'}
            el['params'] = ch.choice([[tok, 'x'], [tok, 1], [tok, None], {'tok': tok, 'flag': 'yes'}, [tok, []]],
                                     'el.novalidate')
        else:
            el = {'jsonrpc': '2.0', 'method': 'typed'}
            el['params'] = ch.choice([
                [tok, 'x'], [tok, 1.5], [tok, None], [tok, True], [tok, 1, 'zzz'], {'tok': tok, 'n': '1'},
                {'tok': tok, 'n': 1, 'label': 'c'}, [tok, [1]], {'tok': tok, 'n': {}}, [tok, 2, 7],
            ], 'el.novalidate')
    else:
        el = {'jsonrpc': '2.0', 'method': 'echo', 'params': [tok, 'never']}
        member = ch.choice(['jsonrpc', 'method', 'params', 'id'], 'el.invalid.member')
        alphabet = [v for v in F.REQUEST_MEMBERS[member] if not _member_ok(member, v)]
        F.set_member(el, member, ch.choice(alphabet, 'el.invalid.value'))
        if member == 'id':
            return el, 'invalid'
    if not notification:
        el['id'] = id_
    elif ch.flag(1, 6, 'el.null_id'):
        el['id'] = None
    return el, kind


def _member_ok(member: str, v: Any) -> bool:
    if member == 'jsonrpc':
        return v == '2.0' and isinstance(v, str)
    if member == 'method':
        return isinstance(v, str)
    if member == 'params':
        return v is F.ABSENT or isinstance(v, (list, dict))
    return v is F.ABSENT or R.valid_id(v)


JUNK_TEXTS = ['', ' ', '{', '[', '}', 'nul', '{"jsonrpc": "2.0", "method": "echo", "params": [', '[1,]', "{'a': 1}",
              '﻿{}', '{"a" 1}', '"unterminated', '[{"jsonrpc": "2.0", "method": "echo"},', 'é☃', '\x00',
              '{"jsonrpc": "2.0", "method": "echo", "id": 01}', '--1', '0x10', '{"id": 1}}', 'undefined']


def gen_document(ch: Choices, max_len: int = 5, allow_junk: bool = True, tok_prefix: str = '',
                 exotic: bool = False, reentrant: bool = False, dup_notification: bool = False) -> Dict[str, Any]:
    """A request text plus a description.  {'text', 'shape', 'kinds', 'doc'}"""
    shape = ['single', 'batch', 'junk_text', 'nonobject', 'empty_batch'][
        ch.weighted([5, 8, 1 if allow_junk else 0, 1 if allow_junk else 0, 1 if allow_junk else 0], 'doc.shape')]
    if shape == 'junk_text':
        text = ch.choice(JUNK_TEXTS, 'doc.junk')
        return {'text': text, 'shape': shape, 'kinds': [], 'doc': None}
    if shape == 'nonobject':
        doc = ch.choice(F.NONOBJECT_ALPHABET, 'doc.nonobject')
        return {'text': json.dumps(doc), 'shape': shape, 'kinds': [], 'doc': doc}
    if shape == 'empty_batch':
        return {'text': '[]', 'shape': shape, 'kinds': [], 'doc': []}
    n = 1 if shape == 'single' else 1 + ch.draw(max_len, 'doc.len')
    ids = ch.shuffle(ELEMENT_IDS, 'doc.ids')
    els, kinds = [], []
    all_notif = shape == 'batch' and ch.flag(1, 8, 'doc.all_notifications')
    for k in range(n):
        notification = all_notif or ch.flag(1, 4, 'el.notification')
        el, kind = gen_element(ch, f'{tok_prefix}t{k}', ids[k], notification, exotic, reentrant)
        els.append(el)
        kinds.append(kind + ('.n' if 'id' not in el or el.get('id') is None else ''))
    if shape == 'batch' and n >= 2 and ch.flag(1, 6, 'doc.dup_id'):
        i = ch.draw(n, 'doc.dup.i')
        j = (i + 1 + ch.draw(n - 1, 'doc.dup.j')) % n
        if els[i].get('id') is not None:
            els[j]['id'] = els[i]['id']
            kinds.append('dup_id')
        if n >= 4 and ch.flag(1, 2, 'doc.dup_id2'):
            # a second duplicated id, of the other JSON type than the first
            rest = [k for k in range(n) if k not in (i, j)]
            a, b = rest[0], rest[1]
            other = 'dup-b' if isinstance(els[i].get('id'), int) else 77
            els[a]['id'] = other
            els[b]['id'] = other
            kinds.append('dup_id2')
    if dup_notification and shape == 'batch' and ch.flag(1, 6, 'doc.dup_notification'):
        # the same notification twice (equal method and parameters, no id): two elements, two executions
        notifs = [k for k, e in enumerate(els) if 'id' not in e]
        if notifs:
            src = notifs[ch.draw(len(notifs), 'doc.dup_notification.which')]
            els.insert(ch.draw(len(els) + 1, 'doc.dup_notification.pos'), json.loads(json.dumps(els[src])))
            kinds.append('dup_notification')
    if shape == 'batch' and ch.flag(1, 10, 'doc.foreign_element'):
        els.insert(ch.draw(len(els) + 1, 'doc.foreign.pos'), ch.choice(F.NONOBJECT_ALPHABET, 'doc.foreign.value'))
        kinds.append('foreign')
    doc = els[0] if shape == 'single' else els
    text = json.dumps(doc)
    if ch.flag(1, 5, 'doc.respell'):
        text = respell(ch, doc)
        doc = json.loads(text)       # with a duplicated member name the last one counts
        kinds = kinds + ['respelled']
    return {'text': text, 'shape': shape, 'kinds': kinds, 'doc': doc}


def respell(ch: Choices, doc: Any) -> str:
    """Another legal JSON spelling of the same document: what a peer with another encoder would put on the wire."""
    how = ch.choice(['raw_unicode', 'indent', 'compact', 'escaped_names', 'escaped_solidus', 'padded', 'dup_before',
                     'dup_after', 'all_escaped'], 'respell.how')
    if how == 'raw_unicode':
        text = json.dumps(doc, ensure_ascii=False)
        try:
            text.encode('utf-8')
        except UnicodeEncodeError:      # a lone surrogate can only travel as an escape
            return json.dumps(doc)
        return text
    if how == 'indent':
        return json.dumps(doc, indent=2)
    if how == 'compact':
        return json.dumps(doc, separators=(',', ':'))
    return _encode(doc, how, 0)


def _uesc(text: str) -> str:
    return ''.join(f'\\u{ord(c):04x}' if ord(c) < 0x10000 else json.dumps(c)[1:-1] for c in text)


def _encode(v: Any, how: str, depth: int) -> str:
    """A structure-aware JSON encoder with a few spelling options (strings and numbers keep their value)."""
    if isinstance(v, str):
        if how == 'all_escaped':
            return '"' + _uesc(v) + '"'
        if how == 'escaped_solidus':
            return json.dumps(v).replace('/', '\\/').replace('.', '\\u002e')
        return json.dumps(v)
    if isinstance(v, list):
        sep = ' ,\r\n ' if how == 'padded' else ', '
        return '[' + sep.join(_encode(x, how, depth + 1) for x in v) + ']'
    if isinstance(v, dict):
        sep = ' ,\r\n ' if how == 'padded' else ', '
        colon = ' :\t' if how == 'padded' else ': '
        parts = []
        for k, x in v.items():
            key = json.dumps(k)
            if how in ('escaped_names', 'all_escaped'):
                key = '"' + _uesc(k[:2]) + json.dumps(k[2:])[1:-1] + '"'
            # a member name occurring twice in one object is legal JSON; decoders keep the last occurrence
            if how == 'dup_before' and k == 'method' and depth <= 1:
                parts.append('"method"' + colon + '"nosuch"')
            if how == 'dup_after' and k == 'jsonrpc' and depth <= 1:
                parts.append('"jsonrpc"' + colon + '"1.0"')
            parts.append(key + colon + _encode(x, how, depth + 1))
        return '{' + sep.join(parts) + '}'
    text = json.dumps(v)
    return ('\n\t ' + text + ' \n') if (how == 'padded' and depth == 0) else text


def corrupt_text(ch: Choices, text: str) -> Tuple[str, str]:
    """Apply one request-leg wire fault."""
    kind = ch.choice(['truncate', 'garble', 'insert', 'repeat_span', 'bigint', 'member', 'nest'], 'corrupt.kind')
    if kind == 'truncate':
        fault: Tuple[Any, ...] = ('truncate', ch.draw(max(1, len(text)), 'corrupt.pos'))
    elif kind == 'garble':
        fault = ('garble', ch.draw(max(1, len(text)), 'corrupt.pos'), ch.choice(['"', '{', '}', ',', ':', '\\', '0', 'x', ' ', '[', ']', 'é', '\n'], 'corrupt.ch'))
    elif kind == 'insert':
        fault = ('insert', ch.draw(len(text) + 1, 'corrupt.pos'), ch.choice(['"', '{', '}', ',', ':', '\\u00', '1e999', '-', 'NaN', 'null', '[]'], 'corrupt.ins'))
    elif kind == 'repeat_span':
        fault = ('repeat_span', ch.draw(max(1, len(text)), 'corrupt.pos'), 1 + ch.draw(3, 'corrupt.len'),
                 ch.choice([2, 3, 50, 5000], 'corrupt.times'))
    elif kind == 'bigint':
        fault = ('bigint', ch.draw(5, 'corrupt.el'), ch.choice(['id', 'params'], 'corrupt.target'),
                 ch.choice([20, 400, 4300, 4301, 5000, 10000], 'corrupt.digits'))
    elif kind == 'member':
        member = ch.choice(['jsonrpc', 'id', 'method', 'params'], 'corrupt.member')
        fault = ('member', ch.draw(5, 'corrupt.el'), [(member, ch.choice(F.REQUEST_MEMBERS[member], 'corrupt.value'))])
    else:
        fault = ('nest', ch.draw(5, 'corrupt.el'), ch.choice([1, 2, 8, 32, 64], 'corrupt.depth'), bool(ch.draw(2, 'corrupt.list')))
    return F.apply_req_fault(text, fault), 'req_' + kind


# --- instrumented middlewares / error handlers --------------------------------------------------------------------
MW_KINDS = ['pass', 'short', 'rewrite_req', 'rewrite_resp', 'withhold', 'deadline']
# a 'deadline' middleware (asynchronous chains) gives the rest of the chain a time budget and answers itself when the
# budget runs out; inner deadlines are shorter than outer ones, and both are far above any ordinary pause
DEADLINE_BASE, DEADLINE_STEP, HANG = 100000.0, 10000.0, 10000000.0


def _tok_of(request: Any) -> Any:
    p = request.params
    if isinstance(p, (list, tuple)) and p:
        return p[0] if isinstance(p[0], str) else None
    if isinstance(p, dict):
        t = p.get('tok')
        return t if isinstance(t, str) else None
    return None


def _mw_pre(w: World, node: str, idx: int, kind: str, request: Any, context: Any) -> None:
    w.rec(node, 'mw.enter', mw=idx, mwkind=kind, tok=_tok_of(request), method=request.method, params=request.params,
          rid=request.id, rid_type=type(request.id).__name__,
          ctx=getattr(context, 'mark', None) if context is not None else None,
          is_request=isinstance(request, pjrpc.Request))


def _short_reply(idx: int, request: Any) -> Any:
    if request.id is None:
        return UNSET
    return pjrpc.Response(id=request.id, result=f'short-{idx}')


def _rewritten(idx: int, request: Any) -> Any:
    tok = _tok_of(request)
    return pjrpc.Request('echo', [tok, f'rewritten-{idx}'], request.id)


def _wrap_resp(idx: int, resp: Any) -> Any:
    if isinstance(resp, pjrpc.Response) and resp.is_success:
        return pjrpc.Response(id=resp.id, result=[f'wrapped-{idx}', resp.result])
    return resp


SHORT_TRIGGER = 'none'       # a 'short' middleware answers requests for this method itself
REWRITE_TRIGGER = 'pair'     # a 'rewrite_req' middleware turns this method into echo(tok, 'rewritten-<idx>')
WITHHOLD_TRIGGER = 'slow'    # a 'withhold' middleware lets the request through but drops the reply (returns UNSET)


def make_middleware(w: World, node: str, idx: int, kind: str, is_async: bool, plain: bool = False) -> Callable[..., Any]:
    """``plain``: in an asynchronous chain, an ordinary function that does its prologue when called and returns
    the awaitable of the rest (a legal AsyncMiddlewareType; it is not lazy like an ``async def``)."""
    def post(request: Any, resp: Any) -> None:
        w.rec(node, 'mw.exit', mw=idx, tok=_tok_of(request), rid=request.id,
              resp='unset' if isinstance(resp, UnsetType) else ('error' if resp.is_error else 'result'))

    if not is_async:
        def mw(request: Any, context: Any, handler: Any) -> Any:
            _mw_pre(w, node, idx, kind, request, context)
            if kind == 'short' and request.method == SHORT_TRIGGER:
                resp = _short_reply(idx, request)
            elif kind == 'rewrite_req' and request.method == REWRITE_TRIGGER and _tok_of(request) is not None:
                resp = handler(_rewritten(idx, request), context)
            else:
                resp = handler(request, context)
            if kind == 'rewrite_resp':
                resp = _wrap_resp(idx, resp)
            if kind == 'withhold' and request.method == WITHHOLD_TRIGGER:
                resp = UNSET
            post(request, resp)
            return resp
        return mw

    async def amw(request: Any, context: Any, handler: Any, _pre_done: bool = False) -> Any:
        if not _pre_done:
            _mw_pre(w, node, idx, kind, request, context)
        tok = _tok_of(request)
        for d in w.plan.get(('mw', idx, tok), ()):
            await asyncio.sleep(d)
            w.rec(node, 'mw.step', mw=idx, tok=tok)
        if kind == 'short' and request.method == SHORT_TRIGGER:
            resp = _short_reply(idx, request)
        elif kind == 'rewrite_req' and request.method == REWRITE_TRIGGER and tok is not None:
            resp = await handler(_rewritten(idx, request), context)
        elif kind == 'deadline':
            try:
                resp = await asyncio.wait_for(handler(request, context), DEADLINE_BASE - DEADLINE_STEP * idx)
            except asyncio.TimeoutError:
                w.rec(node, 'mw.deadline', mw=idx, tok=tok)
                w.fault('deadline_expired', mw=idx)
                resp = UNSET if request.id is None else pjrpc.Response(id=request.id, result=f'deadline-{idx}')
        else:
            resp = await handler(request, context)
        for d in w.plan.get(('mw.post', idx, tok), ()):
            await asyncio.sleep(d)
            w.rec(node, 'mw.step', mw=idx, tok=tok)
        if kind == 'rewrite_resp':
            resp = _wrap_resp(idx, resp)
        if kind == 'withhold' and request.method == WITHHOLD_TRIGGER:
            resp = UNSET
        post(request, resp)
        return resp

    if plain:
        def pmw(request: Any, context: Any, handler: Any) -> Any:
            _mw_pre(w, node, idx, kind, request, context)
            return amw(request, context, handler, True)
        return pmw
    return amw


EH_KINDS = ['identity', 'replace', 'annotate', 'constant']
CONSTANT_CODE_BASE = 7500     # a 'constant' handler translates every error into ONE prebuilt error object it keeps
REPLACED_CODE_BASE = 7000


def make_error_handler(w: World, node: str, hid: str, kind: str, is_async: bool) -> Callable[..., Any]:
    prebuilt = JsonRpcError(code=CONSTANT_CODE_BASE + int(hid[1:]), message=f'constant-{hid}')   # no data, shared

    def body(request: Any, context: Any, error: Any) -> Any:
        w.rec(node, 'eh.call', hid=hid, ehkind=kind, tok=_tok_of(request), rid=request.id, code=error.code,
              message=error.message, data=None if error.data is UNSET else _jsonable(error.data),
              has_data=error.data is not UNSET, is_error=isinstance(error, JsonRpcError))
        if kind == 'replace':
            return JsonRpcError(code=REPLACED_CODE_BASE + int(hid[1:]), message=f'replaced-{hid}')
        if kind == 'annotate':
            return JsonRpcError(code=error.code, message=error.message, data=f'annotated-{hid}')
        if kind == 'constant':
            return prebuilt
        return error

    # the shape of the callable the user registers: a function, a functools.partial, an instance with __call__, and (in
    # asynchronous chains) a plain function that returns a Future instead of being a coroutine function
    shape = w.ch.choice(['function', 'function', 'partial', 'callable', 'future'], 'srv.eh.shape_of_callable')
    if not is_async:
        return _shaped(body, shape if shape != 'future' else 'function')

    async def abody(request: Any, context: Any, error: Any) -> Any:
        tok = _tok_of(request)
        for d in w.plan.get(('eh', hid, tok), ()):
            await asyncio.sleep(d)
            w.rec(node, 'eh.step', hid=hid, tok=tok)
        return body(request, context, error)
    if shape == 'future':
        def fbody(request: Any, context: Any, error: Any) -> Any:
            return asyncio.ensure_future(abody(request, context, error))
        return fbody
    return _shaped(abody, shape)


def _shaped(fn: Callable[..., Any], shape: str) -> Callable[..., Any]:
    if shape == 'partial':
        import functools
        return functools.partial(fn)
    if shape == 'callable':
        if asyncio.iscoroutinefunction(fn):
            class AsyncCallable:
                async def __call__(self, *args: Any, **kwargs: Any) -> Any:
                    return await fn(*args, **kwargs)
            return AsyncCallable()

        class Callable_:
            def __call__(self, *args: Any, **kwargs: Any) -> Any:
                return fn(*args, **kwargs)
        return Callable_()
    return fn


def _jsonable(v: Any) -> Any:
    try:
        return json.loads(json.dumps(v, default=repr))
    except (TypeError, ValueError):
        return repr(v)


# --- server configurations ---------------------------------------------------------------------------------------------
def draw_config(ch: Choices, doc_len: int = 1, middlewares: bool = False, handlers: bool = False,
                force_async: Optional[bool] = None) -> Dict[str, Any]:
    is_async = bool(ch.draw(2, 'srv.async')) if force_async is None else force_async
    cfg: Dict[str, Any] = {
        'async': is_async,
        'flavour': (ch.choice(['async', 'mixed', 'sync'], 'srv.flavour') if is_async else 'sync'),
        'max_batch_size': ch.choice([None, None, 0, 1, doc_len, max(1, doc_len - 1), doc_len + 1], 'srv.max_batch'),
        'middlewares': [], 'handlers': {}, 'mw_plain': [],
    }
    if is_async:
        cfg['concurrent_batch'] = not ch.flag(1, 4, 'srv.sequential_batch')
    # transparent user hooks (message subclasses that add nothing, delegating loader / dumper / encoder / decoder)
    cfg['hooks'] = ch.flag(1, 4, 'srv.hooks')
    if middlewares:
        cfg['middlewares'] = [ch.choice(MW_KINDS, 'srv.mw.kind') for _ in range(ch.draw(4, 'srv.mw.n'))]
        cfg['mw_plain'] = [ch.flag(1, 3, 'srv.mw.plain') for _ in cfg['middlewares']]
        # how the user hands the middlewares over: any iterable is allowed, also a one-shot one
        cfg['mw_iterable'] = ch.choice(['list', 'tuple', 'generator', 'iterator'], 'srv.mw.iterable')
    if handlers:
        shape = ch.choice(['none', 'generic', 'per_code', 'both', 'several', 'replace', 'shared'], 'srv.eh.shape')
        table: Dict[str, List[Tuple[str, str]]] = {}
        n = 0

        def h(kind: str) -> Tuple[str, str]:
            nonlocal n
            n += 1
            return (f'h{n}', kind)
        codes = [R.SERVER_ERROR, R.METHOD_NOT_FOUND, R.INVALID_PARAMS, 2001, 1]
        if shape in ('generic', 'both'):
            table['none'] = [h(ch.choice(EH_KINDS, 'srv.eh.kind'))]
        if shape in ('per_code', 'both'):
            for c in ch.subset(codes, 1, 2, 'srv.eh.codes') or [codes[0]]:
                table[str(c)] = [h(ch.choice(EH_KINDS, 'srv.eh.kind'))]
        if shape == 'several':
            table['none'] = [h(ch.choice(EH_KINDS, 'srv.eh.kind')) for _ in range(2)]
            c = ch.choice(codes, 'srv.eh.code')
            table[str(c)] = [h(ch.choice(EH_KINDS, 'srv.eh.kind')) for _ in range(2)]
        if shape == 'shared':
            # one handler object registered in several slots that apply to the same failure: it runs once per slot
            one = h(ch.choice(['annotate', 'identity'], 'srv.eh.kind'))
            c = ch.choice(codes, 'srv.eh.code')
            table['none'] = [one, one] if ch.flag(1, 2, 'srv.eh.twice_in_list') else [one]
            table[str(c)] = [one]
        if shape == 'replace':
            table['none'] = [h('replace')]
            # handlers registered for the replaced code must NOT run; those for the raised code must
            table[str(REPLACED_CODE_BASE + 1)] = [h('identity')]
            c = ch.choice(codes, 'srv.eh.code')
            table[str(c)] = [h(ch.choice(EH_KINDS, 'srv.eh.kind'))]
        # the order in which the keys were put into the user's table must not matter
        keys = ch.shuffle(sorted(table), 'srv.eh.key_order')
        cfg['handlers'] = {k: table[k] for k in keys}
    return cfg


class ServerUnderTest:
    """A configured real dispatcher with instrumented service, middlewares and handlers."""

    def __init__(self, w: World, cfg: Dict[str, Any], node: str = 'server', extra_kwargs: Optional[Dict[str, Any]] = None,
                 context: Any = None):
        self.w = w
        self.cfg = cfg
        self.node_name = node
        is_async = cfg['async']
        self.loop: Optional[SimLoop] = ensure_loop(w) if is_async else None
        self.generation = 1
        self.service = Service(w, cfg['flavour'], node=node)
        plain = list(cfg.get('mw_plain') or []) + [False] * len(cfg['middlewares'])
        mws = [make_middleware(w, node, i, k, is_async, plain[i]) for i, k in enumerate(cfg['middlewares'])]
        table: Dict[Any, List[Any]] = {}
        made: Dict[Tuple[str, str], Any] = {}    # the same (hid, kind) listed twice is the same callable object
        for key, hs in cfg['handlers'].items():
            table[None if key == 'none' else int(key)] = [
                made.setdefault((hid, kind), make_error_handler(w, node, hid, kind, is_async)) for hid, kind in hs]
        how = cfg.get('mw_iterable', 'list')
        mws_arg: Any = mws if how == 'list' else tuple(mws) if how == 'tuple' else \
            (m for m in mws) if how == 'generator' else iter(mws)
        kwargs: Dict[str, Any] = dict(middlewares=mws_arg, error_handlers=table, max_batch_size=cfg['max_batch_size'])
        if is_async and 'concurrent_batch' in cfg:
            kwargs['concurrent_batch'] = cfg['concurrent_batch']
        if cfg.get('hooks') == 'single_use_encoder':
            from .hooks import SingleUseEncoder
            kwargs['json_encoder'] = SingleUseEncoder
            w.probe('server.single_use_encoder')
        elif cfg.get('hooks') == 'own_encoder':
            from .hooks import OwnRenderingEncoder
            kwargs['json_encoder'] = OwnRenderingEncoder
            w.probe('server.own_encoder')
        elif cfg.get('hooks'):
            from .hooks import server_hooks
            kwargs.update(server_hooks())
            w.probe('server.transparent_hooks')
        if extra_kwargs:
            kwargs.update(extra_kwargs)
        cls = pjrpc.server.AsyncDispatcher if is_async else pjrpc.server.Dispatcher
        self.dispatcher = cls(**kwargs)
        self.dispatcher.add_methods(self.service.registry())
        self.service.dispatcher = self.dispatcher
        self._publish_guarded()
        self.context = context
        self.server = ServerNode(w, self.dispatcher, self.loop, node=node,
                                 context_factory=(lambda: context) if context is not None else None)

    def _publish_guarded(self) -> None:
        """The function behind ``echo`` is published a second time, as ``echo_guarded``, through a validator that hides
        its ``value`` parameter from callers (dependency-injection style ``exclude_param``)."""
        from pjrpc.server.validators import BaseValidator
        guard = BaseValidator(exclude_param=lambda name, annotation, default: name == 'value')
        self.dispatcher.add(guard.validate(self.service.methods['echo']), name='echo_guarded')
        # and one method under a name outside ASCII (Cyrillic, a space, a slash, a check mark, an astral-plane emoji)
        self.dispatcher.add(self.service.methods['none'], name=UNICODE_METHOD)

    def redeploy(self) -> None:
        """Register a new generation of every function under the same names on the live dispatcher (a hot reload): from
        now on the methods that exist are the new ones."""
        self.generation += 1
        self.service = Service(self.w, self.cfg['flavour'], node=self.node_name, generation=self.generation)
        self.dispatcher.add_methods(self.service.registry())
        self.service.dispatcher = self.dispatcher
        self._publish_guarded()
        self.w.probe('server.redeployed')

    def new_event_loop(self) -> None:
        """From now on this (asynchronous) dispatcher is driven by a new event loop."""
        if self.loop is not None:
            self.loop = fresh_loop(self.w)
            self.server.loop = self.loop

    def deliver(self, text: str) -> Tuple[str, Any]:
        """('ret', reply) | ('raise', exc)"""
        try:
            return ('ret', self.server.serve(text))
        except ServerCrashed as e:
            return ('raise', e.__cause__)

    def records(self) -> List[Dict[str, Any]]:
        return [r for r in self.w.history if r['node'] == self.node_name]


# --- shared oracles ---------------------------------------------------------------------------------------------------------
def _safe_str(e: BaseException) -> str:
    try:
        return str(e)
    except Exception:  # noqa: BLE001 - an exception that cannot be printed
        return '<unprintable>'


def check_wellformed(w: World, prop: str, text: str, outcome: Tuple[str, Any], ctx: Dict[str, Any]) -> Optional[Any]:
    """C01 invariant at the server seam.  Returns the parsed reply document (None for no reply)."""
    if outcome[0] == 'raise':
        e = outcome[1]
        w.violate(f'{prop}.raises', f'dispatch raised {type(e).__name__}: {_safe_str(e)[:100]} for {text[:80]!r}',
                  **{**ctx, 'exc': type(e).__name__})
        return None
    reply = outcome[1]
    if reply is None:
        return None
    if not (isinstance(reply, tuple) and len(reply) == 2 and isinstance(reply[0], str) and isinstance(reply[1], tuple)):
        w.violate(f'{prop}.shape', f'dispatch returned {type(reply).__name__} instead of None or (text, codes)', **ctx)
        return None
    body, codes = reply
    ok, doc = R.strict_loads(body)
    if not ok:
        w.violate(f'{prop}.reply_json', f'response text is not JSON: {body[:100]!r}', **ctx)
        return None
    objs = doc if isinstance(doc, list) else [doc]
    if isinstance(doc, list) and not doc:
        w.violate(f'{prop}.empty_array', 'response document is an empty array', **ctx)
        return doc
    for k, o in enumerate(objs):
        why = R.valid_response(o)
        if why is None and 'id' not in o:
            why = 'id member missing'
        if why:
            w.violate(f'{prop}.reply_doc', f'response object {k} is not a valid JSON-RPC 2.0 response: {why}: '
                      f'{json.dumps(o)[:120]}', why=why.split(':')[0][:40], **ctx)
            return doc
    want = tuple((o['error']['code'] if 'error' in o else 0) for o in objs)
    if tuple(codes) != want or any(type(a) is not type(b) for a, b in zip(codes, want)):
        w.violate(f'{prop}.codes', f'error codes {codes!r} disagree with the document (expected {want!r})', **ctx)
    return doc


def check_against_reference(w: World, prop: str, text: str, reply_doc: Any, execs: List[Tuple[str, Any]],
                            max_batch_size: Optional[int], ctx: Dict[str, Any]) -> Optional[int]:
    """Reply and executions vs ref_dispatch.  Returns the index of the matching alternative."""
    ref = R.ref_dispatch(text, METHOD_MODELS, max_batch_size, NODATA, (ProtoFailure,))
    if ref['open']:
        w.probe('ref.open_zone')
        return None
    reasons = []
    for k, (exp_reply, exp_execs) in enumerate(ref['alternatives']):
        why = R.match_reply(reply_doc, exp_reply)
        if why is None:
            want = sorted((m, json.dumps(p, sort_keys=True)) for m, p in normalise_expected_execs(exp_execs))
            got = sorted((m, json.dumps(p, sort_keys=True)) for m, p in execs)
            if want != got:
                why = f'executions {got} instead of {want}'
                clause = 'executions'
            else:
                return k
        else:
            clause = 'reply'
        reasons.append((clause, why))
    clause, why = reasons[0]
    w.violate(f'{prop}.{clause}', f'{why}; request {text[:140]}', **ctx)
    return None


def executions_of(records: List[Dict[str, Any]]) -> List[Tuple[str, Any]]:
    """(method, params-as-sent) for every method.enter record; params rebuilt as a name->value mapping."""
    out = []
    for r in records:
        if r['kind'] == 'method.enter':
            args = dict(r['args'])
            if r['tok'] is not None:
                args['tok'] = r['tok']
            out.append((r['method'], args))
    return out


def normalise_expected_execs(execs: List[Tuple[str, Any]]) -> List[Tuple[str, Any]]:
    """Reference executions (method, params as list or dict) -> (method, name->value mapping)."""
    out = []
    for m, p in execs:
        sig = METHOD_MODELS[m].signature
        b = sig.bind(*(p if isinstance(p, list) else []), **(p if isinstance(p, dict) else {}))
        out.append((PUBLISHED_AS.get(m, m), json.loads(json.dumps(dict(b.arguments)))))
    return out


def check_no_leak(w: World, prop: str, body: Optional[str], ctx: Dict[str, Any]) -> None:
    if not body:
        return
    if MARKER in body:
        w.violate(f'{prop}.leak', f'the exception message marker appears in the response: {body[:140]}', **ctx)
        return
    for name in EXC_CLASS_NAMES + ['Traceback']:
        if name in body:
            w.violate(f'{prop}.leak', f'the exception type name {name} appears in the response: {body[:140]}', **ctx)
            return


def plan_pauses(w: World, cfg: Dict[str, Any], n_elements: int, rate: int = 2, tok_prefix: str = '') -> None:
    """Pre-draw the suspension points of the asynchronous callees (methods, middlewares, error handlers)."""
    if not cfg['async']:
        return
    ch = w.ch
    for k in range(n_elements):
        tok = f'{tok_prefix}t{k}'
        w.plan[('method', tok)] = [ch.choice(gen.PAUSES, 'pause.d') for _ in range(ch.draw(rate + 1, 'pause.n'))]
        for i in range(len(cfg['middlewares'])):
            w.plan[('mw', i, tok)] = [ch.choice(gen.PAUSES, 'pause.d') for _ in range(ch.draw(rate, 'pause.mw'))]
            w.plan[('mw.post', i, tok)] = [ch.choice(gen.PAUSES, 'pause.d') for _ in range(ch.draw(rate, 'pause.mw'))]
        for hs in cfg['handlers'].values():
            for hid, _ in hs:
                w.plan[('eh', hid, tok)] = [ch.choice(gen.PAUSES, 'pause.d') for _ in range(ch.draw(rate, 'pause.eh'))]


def plan_hangs(w: World, cfg: Dict[str, Any], doc: Any, rate: Tuple[int, int] = (1, 3)) -> List[str]:
    """With a deadline middleware in an asynchronous chain: let some elements' methods hang (a pause far beyond every
    deadline).  Returns the tokens chosen; only coroutine methods actually suspend."""
    if not cfg['async'] or 'deadline' not in cfg['middlewares']:
        return []
    out = []
    for el in (doc if isinstance(doc, list) else [doc]):
        if not isinstance(el, dict):
            continue
        tok = C_tok(el.get('params', []))
        if tok is not None and w.ch.flag(rate[0], rate[1], 'hang'):
            w.plan[('method', tok)] = [HANG]
            out.append(tok)
    return out


def C_tok(params: Any) -> Optional[str]:
    if isinstance(params, list) and params and isinstance(params[0], str):
        return params[0]
    if isinstance(params, dict) and isinstance(params.get('tok'), str):
        return params['tok']
    return None


def judge_delivery(w: World, prop: str, sut: 'ServerUnderTest', text: str, checks: Tuple[str, ...],
                   ctx: Dict[str, Any]) -> Tuple[Tuple[str, Any], Any]:
    """Deliver one text and apply the selected shared oracles: wellformed, reference, leak, solo (differential)."""
    before = len(w.history)
    outcome = sut.deliver(text)
    recs = [r for r in w.history[before:] if r['node'] == sut.node_name]
    stale = [r for r in recs if r['kind'] == 'method.enter' and r.get('gen', sut.generation) != sut.generation]
    if stale:
        w.violate(f'{prop}.stale_method', f'method {stale[0]["method"]} was registered again, but the function of '
                  f'generation {stale[0]["gen"]} was executed (current generation {sut.generation})', **ctx)
    doc = None
    if 'wellformed' in checks or outcome[0] == 'raise':
        doc = check_wellformed(w, prop, text, outcome, ctx)
    elif outcome[1] is not None:
        ok, doc = R.strict_loads(outcome[1][0])
    if outcome[0] == 'raise':
        return outcome, None
    body = outcome[1][0] if outcome[1] is not None else None
    if 'reference' in checks:
        check_against_reference(w, prop, text, doc, executions_of(recs), sut.cfg['max_batch_size'], ctx)
    if 'leak' in checks:
        check_no_leak(w, prop, body, ctx)
    return outcome, doc


def max_nesting(text: str) -> int:
    """Maximum bracket depth outside string literals (an upper bound on container nesting)."""
    depth = best = 0
    in_str = esc = False
    for c in text:
        if in_str:
            if esc:
                esc = False
            elif c == '\\':
                esc = True
            elif c == '"':
                in_str = False
        elif c == '"':
            in_str = True
        elif c in '[{':
            depth += 1
            best = max(best, depth)
        elif c in ']}':
            depth = max(0, depth - 1)
    return best


def _has_nonfinite(v: Any) -> bool:
    if isinstance(v, float):
        return v != v or v in (float('inf'), float('-inf'))
    if isinstance(v, list):
        return any(_has_nonfinite(x) for x in v)
    if isinstance(v, dict):
        return any(_has_nonfinite(x) for x in v.values())
    return False


def outside_quantifier(w: World, text: str) -> bool:
    """Texts the properties do not quantify over: nesting beyond 64 levels; number literals that overflow to
    a non-finite float (a method echoing such a value does not return a JSON-encodable value)."""
    if max_nesting(text) > 64:
        w.probe('skipped.nesting_beyond_64')
        return True
    try:
        doc = json.loads(text)
    except (ValueError, RecursionError):
        return False
    if _has_nonfinite(doc):
        w.probe('skipped.nonfinite_number')
        return True
    return False
