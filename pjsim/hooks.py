"""Transparent user hooks: subclasses and wrappers that change nothing.

The library lets the user supply the message classes and the JSON loader / dumper / encoder / decoder.  A deployment
that passes subclasses which add nothing, or wrappers that only delegate, must behave exactly like the default
configuration; the knob is drawn per run so that no code path silently depends on the defaults being the defaults.
"""
from __future__ import annotations

import json
from typing import Any, Dict

import pjrpc
from pjrpc.common import JSONEncoder
from pjrpc.server import dispatcher as _server_dispatcher


class HookedRequest(pjrpc.Request):
    @classmethod
    def from_json(cls, json_data: Any) -> 'HookedRequest':          # the documented signature, overridden and delegating
        return super().from_json(json_data)  # type: ignore[return-value]


class HookedResponse(pjrpc.Response):
    @classmethod
    def from_json(cls, json_data: Any, error_cls: Any = pjrpc.exceptions.JsonRpcError) -> 'HookedResponse':
        return super().from_json(json_data, error_cls=error_cls)  # type: ignore[return-value]

    def __bool__(self) -> bool:
        # a convenience many response types offer: "if response:" means "it succeeded"; protocol-wise nothing changes
        return self.is_success


class HookedBatchRequest(pjrpc.BatchRequest):
    @classmethod
    def from_json(cls, data: Any) -> 'HookedBatchRequest':
        return super().from_json(data)  # type: ignore[return-value]


class HookedBatchResponse(pjrpc.BatchResponse):
    @classmethod
    def from_json(cls, json_data: Any, error_cls: Any = pjrpc.exceptions.JsonRpcError) -> 'HookedBatchResponse':
        return super().from_json(json_data, error_cls=error_cls)  # type: ignore[return-value]


class HookedEncoder(JSONEncoder):
    pass


class HookedServerEncoder(_server_dispatcher.JSONEncoder):
    pass


class OwnRenderingEncoder(_server_dispatcher.JSONEncoder):
    """A user encoder with a rendering of its own for the library's validation error (not transparent: only used where
    two implementations are compared with each other under the same configuration)."""

    def default(self, o: Any) -> Any:
        from pjrpc.server.validators import ValidationError
        if isinstance(o, ValidationError):
            return {'kind': 'validation', 'problems': [str(a) for a in o.args]}
        return super().default(o)


class SingleUseEncoder(_server_dispatcher.JSONEncoder):
    """An encoder with per-document state on the instance (the library is handed the class and json.dumps builds an
    instance per document): an instance that is asked for a second document says so."""

    def __init__(self, *args: Any, **kwargs: Any):
        super().__init__(*args, **kwargs)
        self.documents = 0

    def encode(self, o: Any) -> str:
        self.documents += 1
        if self.documents > 1:
            raise RuntimeError('one encoder instance was used for more than one document')
        return super().encode(o)

    def iterencode(self, o: Any, _one_shot: bool = False) -> Any:
        return super().iterencode(o, _one_shot)


class HookedDecoder(json.JSONDecoder):
    pass


def hooked_loads(text: Any, **kwargs: Any) -> Any:
    return json.loads(text, **kwargs)


def hooked_dumps(obj: Any, **kwargs: Any) -> str:
    return json.dumps(obj, **kwargs)


def server_hooks() -> Dict[str, Any]:
    return dict(request_class=HookedRequest, response_class=HookedResponse, batch_request=HookedBatchRequest,
                batch_response=HookedBatchResponse, json_loader=hooked_loads, json_dumper=hooked_dumps,
                json_encoder=HookedServerEncoder, json_decoder=HookedDecoder)


def client_hooks() -> Dict[str, Any]:
    return dict(request_class=HookedRequest, response_class=HookedResponse, batch_request_class=HookedBatchRequest,
                batch_response_class=HookedBatchResponse, json_loader=hooked_loads, json_dumper=hooked_dumps,
                json_encoder=HookedEncoder, json_decoder=HookedDecoder)
