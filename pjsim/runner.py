"""Runner: seeds -> workers -> violations -> minimise -> replay files, evidence, exit code.

Usage (through /verif/bin/check):
    python -m pjsim.runner C09 --tier quick
    python -m pjsim.runner C09 --replay /verif/replays/C09-....json
    python -m pjsim.runner selftest [IDs...]
Exit codes: 0 property held on everything explored; 1 violation (line ``VIOLATION property=<id> replay=<path>``);
2 harness error (never a pass).
"""
from __future__ import annotations

import argparse
import asyncio
import faulthandler
import gc
import importlib
import json
import logging
import os
import subprocess
import sys
import time as _real_time
import traceback
from collections import Counter
from concurrent.futures import ProcessPoolExecutor, as_completed
from multiprocessing import get_context
from typing import Any, Dict, List, Optional, Sequence, Tuple

from . import timeseam
from .choices import Choices, derive_seed, minimise
from .loop import SimDeadlock
from .world import HarnessError, StepCapExceeded, World, canon

VERIF_DIR = os.path.dirname(os.path.dirname(os.path.abspath(__file__)))
REPLAY_DIR = os.environ.get('VERIF_REPLAY_DIR') or os.path.join(VERIF_DIR, 'replays')
EVIDENCE_DIR = os.environ.get('VERIF_EVIDENCE_DIR') or os.path.join(VERIF_DIR, 'evidence')
KNOWN_FINDINGS = os.path.join(VERIF_DIR, 'known_findings.json')

CLAIMED = ['C01', 'C02', 'C03', 'C06', 'C07', 'C08', 'C09', 'C10', 'C11', 'C12', 'C13', 'C18', 'C19', 'C20']


def load_prop(prop: str) -> Any:
    return importlib.import_module(f'pjsim.props.{prop.lower()}')


def _reset_process_state() -> None:
    """Clear the process-global caches of pjrpc so that one run cannot influence the next."""
    import sys as _sys
    for modname in ('pjrpc.server.validators.base', 'pjrpc.server.validators.pydantic',
                    'pjrpc.server.validators.jsonschema'):
        mod = _sys.modules.get(modname)
        if mod is None:
            continue
        for cls in vars(mod).values():
            if isinstance(cls, type):
                for attr in vars(cls).values():
                    clear = getattr(attr, 'cache_clear', None)
                    if callable(clear):
                        clear()
    # validators are also reachable through a module-level instance captured at registration time; methods are
    # registered per run, so a fresh instance per run keeps instance-level state from crossing run boundaries
    disp = _sys.modules.get('pjrpc.server.dispatcher')
    if disp is not None and hasattr(disp, 'default_validator'):
        try:
            disp.default_validator = type(disp.default_validator)()
        except Exception:  # noqa: BLE001
            pass


class _LogSink(logging.Handler):
    """Formats every record (as every real handler does) and throws it away; a record that cannot be formatted is
    swallowed the way logging.Handler.handleError does."""
    failed = 0

    def createLock(self) -> None:
        # no handler lock: formatting a record calls back into the library (repr of requests), which is a pre-emption
        # point of the baton scheduler - a thread parked there must not hold a lock another thread needs
        self.lock = None

    def emit(self, record: logging.LogRecord) -> None:
        try:
            record.getMessage()
        except Exception:  # noqa: BLE001
            _LogSink.failed += 1


_NULL = logging.NullHandler()


def logging_enabled(seed: Optional[int]) -> bool:
    """Per-run environment knob: a quarter of the runs have the library's loggers switched on at DEBUG level (most
    deployments log at INFO or DEBUG; the default of the test suite is silence)."""
    return seed is not None and (seed >> 5) % 4 == 0


def execute(prop: str, family: str, seed: Optional[int], prefix: Sequence[int] = (),
            replay: Optional[Sequence[int]] = None, keep_history: bool = False,
            env_seed: Optional[int] = None) -> Dict[str, Any]:
    """One simulated run.  Pure function of (code under test, prop, family, choices, environment seed)."""
    mod = load_prop(prop)
    log_on = logging_enabled(seed if env_seed is None else env_seed)
    sink = None
    if log_on:
        sink = _LogSink()
        lg = logging.getLogger('pjrpc')
        lg.addHandler(sink)
        lg.setLevel(logging.DEBUG)
        lg.propagate = False
        logging.getLogger().addHandler(_NULL)     # other libraries' loggers stay quiet (no last-resort stderr output)
        for name in ('pjsim_flask', 'pjsim_flask_first', 'werkzeug', 'aiohttp', 'asyncio'):
            other = logging.getLogger(name)
            other.handlers[:] = [_NULL]
            other.propagate = False
        logging.disable(logging.NOTSET)
    try:
        res = _execute(mod, prop, family, seed, prefix, replay, keep_history)
    finally:
        if sink is not None:
            lg = logging.getLogger('pjrpc')
            lg.removeHandler(sink)
            lg.setLevel(logging.NOTSET)
            lg.propagate = True
            logging.getLogger().removeHandler(_NULL)
            logging.disable(logging.CRITICAL)
    if log_on:
        res['probes']['env.logging_on'] = res['probes'].get('env.logging_on', 0) + 1
    return res


def _execute(mod: Any, prop: str, family: str, seed: Optional[int], prefix: Sequence[int],
             replay: Optional[Sequence[int]], keep_history: bool) -> Dict[str, Any]:
    if isinstance(prefix, dict):
        ch = Choices(seed, replay=replay, forced=prefix)
    else:
        ch = Choices(seed, prefix=prefix, replay=replay)
    w = World(ch, prop, step_cap=getattr(mod, 'STEP_CAP', 20000))
    _reset_process_state()
    from . import clientscn as _cs
    _cs._JITTER_RESETS.clear()
    harness_error = None
    seam = timeseam.install(w)
    try:
        try:
            mod.FAMILIES[family](w)
        except StepCapExceeded as e:
            w.violate(f'{prop}.liveness', f'no progress: {e}', family=family)
        except SimDeadlock as e:
            w.violate(f'{prop}.liveness', f'deadlock: {e}', family=family)
        except HarnessError:
            harness_error = traceback.format_exc()
        except Exception:  # noqa: BLE001
            harness_error = traceback.format_exc()
        except BaseException as e:  # noqa: BLE001 - e.g. a simulated CancelledError / abort escaping a family
            if isinstance(e, (KeyboardInterrupt, SystemExit)):
                raise
            harness_error = traceback.format_exc()
    finally:
        timeseam.uninstall(seam)
        for fn in reversed(w.cleanup):
            try:
                fn()
            except Exception:  # noqa: BLE001
                if harness_error is None:
                    harness_error = traceback.format_exc()
        asyncio.set_event_loop(None)
    res: Dict[str, Any] = {
        'prop': prop, 'family': family, 'seed': seed,
        'digest': w.digest(),
        'violations': [v.to_json() for v in w.violations],
        'faults': dict(w.faults), 'faults_cfg': dict(w.faults_cfg), 'probes': dict(w.probes),
        'sched': dict(w.sched), 'sched_decisions': w.sched_decisions,
        'sim_seconds': w.now, 'steps': w.steps, 'events': len(w.history),
        'sig': w.signature(), 'harness_error': harness_error,
        'n_choices': len(ch.trace), 'nontrivial': w.nontrivial,
    }
    if w.violations or harness_error or keep_history:
        res['trace'] = list(ch.trace)
        res['scenario'] = canon(w.scenario)
        res['history_tail'] = w.history[-60:]
        res['sched_trace'] = w.sched_trace[-200:]
        res['faults_fired'] = [r for r in w.history if r['kind'] == 'fault'][-40:]
    if keep_history:
        res['history'] = w.history
    return res


# --- known findings -------------------------------------------------------------------------------------------
def load_known() -> List[Dict[str, Any]]:
    try:
        with open(KNOWN_FINDINGS) as f:
            data = json.load(f)
    except FileNotFoundError:
        return []
    return [e for e in data.get('findings', []) if e.get('status', 'open') == 'open']


def match_known(v: Dict[str, Any], known: List[Dict[str, Any]]) -> Optional[Dict[str, Any]]:
    for e in known:
        if e['property'] != v['property'] or e['clause'] != v['clause']:
            continue
        where = e.get('where', {})
        if all(v['ctx'].get(k) == val for k, val in where.items()):
            return e
    return None


# --- worker side ---------------------------------------------------------------------------------------------
def _seed_for(base: int, prop: str, family: str, index: int) -> int:
    return derive_seed(base, prop, family, index)


def _work(args: Tuple[str, str, int, List[Any], int]) -> Dict[str, Any]:
    """Run a chunk of items for one family; aggregate."""
    prop, family, base, items, n_samples = args
    faulthandler.dump_traceback_later(600, exit=True)
    known = load_known()
    agg: Dict[str, Any] = {
        'family': family, 'runs': 0, 'digests': set(), 'nontrivial': set(), 'sigs': set(),
        'faults': Counter(), 'faults_cfg': Counter(), 'probes': Counter(), 'sched': Counter(),
        'sim_seconds': 0.0, 'steps': 0, 'events': 0, 'sched_decisions': 0,
        'failed': [], 'harness': [], 'samples': [], 'known_seen': Counter(),
    }
    for item in items:
        if isinstance(item, int):
            seed, prefix, index = _seed_for(base, prop, family, item), (), item
        else:
            index, prefix = item
            seed = _seed_for(base, prop, family, 'sys%d' % index)
        want_sample = len(agg['samples']) < n_samples
        res = execute(prop, family, seed, prefix=prefix, keep_history=False)
        agg['runs'] += 1
        d = res['digest'][:16]
        agg['digests'].add(d)
        if res['faults'] or res['sched_decisions'] >= 2 or res.get('nontrivial'):
            agg['nontrivial'].add(d)
        agg['sigs'].add(res['sig'])
        for key in ('faults', 'faults_cfg', 'probes', 'sched'):
            agg[key].update(res[key])
        agg['sim_seconds'] += res['sim_seconds']
        agg['steps'] += res['steps']
        agg['events'] += res['events']
        agg['sched_decisions'] += res['sched_decisions']
        if res['harness_error']:
            agg['harness'].append({'family': family, 'seed': seed, 'index': index, 'error': res['harness_error'],
                                   'trace': res.get('trace')})
        unknown = []
        for v in res['violations']:
            e = match_known(v, known)
            if e is not None:
                agg['known_seen'][e['id']] += 1
            else:
                unknown.append(v)
        if unknown:
            if len(agg['failed']) < 6:
                agg['failed'].append({'family': family, 'seed': seed, 'index': index,
                                      'prefix': prefix if isinstance(prefix, dict) else list(prefix),
                                      'trace': res['trace'], 'violations': unknown, 'digest': res['digest'],
                                      'scenario': res.get('scenario')})
            else:
                agg['failed_more'] = agg.get('failed_more', 0) + 1
        if want_sample:
            r2 = execute(prop, family, seed, prefix=prefix, keep_history=True)
            if r2['digest'] != res['digest']:
                agg['harness'].append({'family': family, 'seed': seed, 'index': index,
                                       'error': 'nondeterministic: same seed, two digests in one process'})
            agg['samples'].append({'family': family, 'seed': seed, 'scenario': r2.get('scenario'),
                                   'events': r2['events'], 'history_head': r2['history'][:12]})
    faulthandler.cancel_dump_traceback_later()
    for key in ('digests', 'nontrivial', 'sigs'):
        agg[key] = sorted(agg[key])
    for key in ('faults', 'faults_cfg', 'probes', 'sched', 'known_seen'):
        agg[key] = dict(agg[key])
    return agg


# --- parent side -----------------------------------------------------------------------------------------------
def _replay_matches(prop: str, family: str, choices: Sequence[int], clause: str,
                    known: List[Dict[str, Any]], env_seed: Optional[int] = None) -> Optional[Dict[str, Any]]:
    res = execute(prop, family, None, replay=choices, env_seed=env_seed)
    if res['harness_error']:
        return None
    for v in res['violations']:
        if v['clause'] == clause and match_known(v, known) is None:
            return res
    return None


def _write_replay(prop: str, fail: Dict[str, Any], known: List[Dict[str, Any]], budget_runs: int) -> List[str]:
    """Minimise the failing run per distinct clause, verify in a fresh interpreter, write replay files."""
    os.makedirs(REPLAY_DIR, exist_ok=True)
    paths = []
    seen_clauses = set()
    for v in fail['violations']:
        clause = v['clause']
        if clause in seen_clauses:
            continue
        seen_clauses.add(clause)
        family = fail['family']
        original = list(fail['trace'])

        def still(cand: List[int]) -> bool:
            return _replay_matches(prop, family, cand, clause, known, fail['seed']) is not None

        small, used = minimise(original, still, max_runs=budget_runs)
        res = _replay_matches(prop, family, small, clause, known, fail['seed'])
        minimised = True
        if res is None:  # cannot happen if deterministic; fall back to the original trace
            small, minimised = original, False
            res = _replay_matches(prop, family, small, clause, known, fail['seed'])
        if res is None:
            # the violation does not reproduce from its own trace: harness defect
            path = os.path.join(REPLAY_DIR, f'{prop}-{fail["seed"]}-NONDETERMINISTIC.json')
            with open(path, 'w') as f:
                json.dump({'property': prop, 'family': family, 'seed': fail['seed'], 'choices': original,
                           'violation': v, 'nondeterministic': True}, f, indent=1)
            paths.append(('nondet', path, v))
            continue
        vv = next(x for x in res['violations'] if x['clause'] == clause and match_known(x, known) is None)
        name = f'{prop}-{clause.split(".", 1)[-1].replace(".", "_")}-{fail["seed"] % 10**10}.json'
        path = os.path.join(REPLAY_DIR, name)
        doc = {
            'property': prop, 'clause': clause, 'signature': vv['ctx'], 'message': vv['message'],
            'seed': fail['seed'], 'run_index': fail['index'], 'family': family,
            'choices': small, 'choices_original_len': len(original), 'minimised': minimised,
            'minimise_runs': used,
            'scenario': res.get('scenario'), 'faults_fired': res.get('faults_fired'),
            'schedule': res.get('sched_trace'), 'history_tail': res.get('history_tail'),
            'digest': res['digest'],
        }
        with open(path, 'w') as f:
            json.dump(doc, f, indent=1, default=repr)
        # fresh-interpreter verification
        ok = _verify_fresh(prop, path)
        if not ok:
            doc['fresh_interpreter_reproduced'] = False
            with open(path, 'w') as f:
                json.dump(doc, f, indent=1, default=repr)
            paths.append(('nondet', path, vv))
        else:
            paths.append(('ok', path, vv))
    return paths


def _verify_fresh(prop: str, path: str) -> bool:
    env = dict(os.environ)
    env['PYTHONHASHSEED'] = '12345'
    try:
        out = subprocess.run([sys.executable, '-m', 'pjsim.runner', prop, '--replay', path, '--strict-digest'],
                             env=env, capture_output=True, text=True, timeout=300)
    except subprocess.TimeoutExpired:
        return False
    return out.returncode == 1 and 'VIOLATION' in out.stdout


def run_replay(prop: str, path: str, strict_digest: bool) -> int:
    with open(path) as f:
        doc = json.load(f)
    known = load_known()
    res = execute(doc['property'], doc['family'], None, replay=doc['choices'], keep_history=True, env_seed=doc.get('seed'))
    if res['harness_error']:
        print('HARNESS-ERROR during replay:\n' + res['harness_error'])
        return 2
    hit = [v for v in res['violations'] if v['clause'] == doc['clause'] and match_known(v, known) is None]
    if hit:
        if strict_digest and res['digest'] != doc.get('digest'):
            print(f'replay diverged: digest {res["digest"]} != recorded {doc.get("digest")}')
            return 2
        same = res['digest'] == doc.get('digest')
        print(f'replayed {path}: {hit[0]["clause"]}: {hit[0]["message"]} (digest {"identical" if same else "differs"})')
        print(f'VIOLATION property={doc["property"]} replay={path}')
        return 1
    other = [v for v in res['violations'] if match_known(v, known) is None]
    if other:
        print(f'replayed {path}: recorded clause {doc["clause"]} gone, but: {other[0]["clause"]}: {other[0]["message"]}')
        print(f'VIOLATION property={doc["property"]} replay={path}')
        return 1
    print(f'replayed {path}: no violation (the recorded one does not occur on this tree)')
    return 0


def selftest_determinism(prop: str, base: int, per_family: int = 3) -> List[str]:
    """Same seeds twice in process and once in a fresh interpreter under another hash seed."""
    mod = load_prop(prop)
    problems: List[str] = []
    want: Dict[str, str] = {}
    for family in mod.FAMILIES:
        for i in range(per_family):
            seed = _seed_for(base, prop, family, i)
            a = execute(prop, family, seed)
            b = execute(prop, family, seed)
            if a['digest'] != b['digest']:
                problems.append(f'{prop}/{family}/{i}: two digests in one process')
            if a['harness_error']:
                problems.append(f'{prop}/{family}/{i}: harness error: {a["harness_error"].splitlines()[-1]}')
            want[f'{family}/{i}'] = a['digest']
    env = dict(os.environ)
    env['PYTHONHASHSEED'] = '4242'
    env['VERIF_SEED'] = str(base)
    try:
        out = subprocess.run([sys.executable, '-m', 'pjsim.runner', prop, '--print-digests', str(per_family)],
                             env=env, capture_output=True, text=True, timeout=300)
        got = json.loads(out.stdout.strip().splitlines()[-1]) if out.returncode == 0 else None
    except Exception as e:  # noqa: BLE001
        got = None
        problems.append(f'{prop}: fresh interpreter failed: {e!r}')
    if got is None:
        problems.append(f'{prop}: fresh interpreter gave no digests')
    else:
        for k, d in want.items():
            if got.get(k) != d:
                problems.append(f'{prop}/{k}: digest differs in a fresh interpreter with another PYTHONHASHSEED')
    return problems


def print_digests(prop: str, base: int, per_family: int) -> int:
    mod = load_prop(prop)
    out = {}
    for family in mod.FAMILIES:
        for i in range(per_family):
            out[f'{family}/{i}'] = execute(prop, family, _seed_for(base, prop, family, i))['digest']
    print(json.dumps(out))
    return 0


def _digest_chunk(args: Tuple[str, str, int, List[int]]) -> Dict[str, str]:
    prop, family, base, idxs = args
    return {f'{family}/{i}': execute(prop, family, _seed_for(base, prop, family, i))['digest'] for i in idxs}


def digest_map(prop: str, base: int, n: int, workers: int) -> Dict[str, str]:
    mod = load_prop(prop)
    tasks = []
    for family in mod.FAMILIES:
        for k in range(0, n, 20):
            tasks.append((prop, family, base, list(range(k, min(n, k + 20)))))
    out: Dict[str, str] = {}
    with ProcessPoolExecutor(max_workers=workers, mp_context=get_context('fork')) as pool:
        for part in pool.map(_digest_chunk, tasks):
            out.update(part)
    return out


def selftest_deep(props: List[str], base: int, n: int) -> int:
    """Many seeds, three configurations (worker count x PYTHONHASHSEED, each a fresh interpreter), digests diffed."""
    import hashlib
    configs = [(16, '0'), (3, '987'), (11, '31337')]
    report: Dict[str, Any] = {'seeds_per_family': n, 'configs': configs, 'properties': {}}
    bad = 0
    for prop in props:
        maps = []
        for workers, hs in configs:
            env = dict(os.environ, PYTHONHASHSEED=hs, VERIF_SEED=str(base))
            out = subprocess.run([sys.executable, '-m', 'pjsim.runner', prop, '--digest-map', str(n), '--workers',
                                  str(workers)], env=env, capture_output=True, text=True, timeout=3600)
            if out.returncode != 0:
                print(f'SELFTEST-FAIL {prop}: digest-map run failed: {out.stderr[-400:]}')
                bad += 1
                maps.append({})
                continue
            maps.append(json.loads(out.stdout.strip().splitlines()[-1]))
        diffs = [k for k in maps[0] if any(m.get(k) != maps[0][k] for m in maps[1:])]
        report['properties'][prop] = {
            'runs_compared': len(maps[0]), 'diverging': len(diffs),
            'digest_of_digests': hashlib.sha256(json.dumps(maps[0], sort_keys=True).encode()).hexdigest()[:16]}
        for k in diffs[:5]:
            print(f'SELFTEST-FAIL {prop}/{k}: digests differ between configurations')
        bad += len(diffs)
        print(f'selftest-deep {prop}: {len(maps[0])} runs x {len(configs)} configurations, {len(diffs)} diverging')
    os.makedirs(os.path.join(VERIF_DIR, 'selftest'), exist_ok=True)
    with open(os.path.join(VERIF_DIR, 'selftest', 'DETERMINISM.json'), 'w') as f:
        json.dump(report, f, indent=1)
    return 2 if bad else 0


def run_check(prop: str, tier: str, base: int, workers: int, budget_s: Optional[float]) -> int:
    t0 = _real_time.time()
    mod = load_prop(prop)
    known = load_known()
    plan = dict(mod.PLAN[tier])  # family -> number of random seeds
    if tier == 'thorough':  # the fixed block of the thorough tier is at least three quick blocks
        plan = {f: max(n, 3 * mod.PLAN['quick'].get(f, 0)) for f, n in plan.items()}
        for f, n in mod.PLAN['quick'].items():
            plan.setdefault(f, 3 * n)
    if os.environ.get('VERIF_FAMILIES'):
        only = set(os.environ['VERIF_FAMILIES'].split(','))
        plan = {f: n for f, n in plan.items() if f in only}
    if os.environ.get('VERIF_SCALE'):
        # development aid (not used by the registered commands): a fraction of the random part of every family
        scale = float(os.environ['VERIF_SCALE'])
        plan = {f: max(50, int(n * scale)) for f, n in plan.items()}
    chunk = getattr(mod, 'CHUNK', 50)
    problems = selftest_determinism(prop, base, per_family=2 if tier == 'quick' else 4)
    tasks: List[Tuple[str, str, int, List[Any], int]] = []
    systematic_total = 0
    for family, n in plan.items():
        sysgen = getattr(mod, 'SYSTEMATIC', {}).get(family)
        if sysgen is not None:
            prefixes = list(sysgen(tier))
            systematic_total += len(prefixes)
            items = [(i, p if isinstance(p, dict) else list(p)) for i, p in enumerate(prefixes)]
            for k in range(0, len(items), chunk):
                tasks.append((prop, family, base, items[k:k + chunk], 1 if k == 0 else 0))
        for k in range(0, n, chunk):
            tasks.append((prop, family, base, list(range(k, min(n, k + chunk))), 2 if k == 0 else 0))
    total = _new_total()
    ctx = get_context('fork')
    deadline = None
    if tier == 'thorough':
        deadline = t0 + (budget_s if budget_s is not None else getattr(mod, 'THOROUGH_BUDGET_S', 600))
    with ProcessPoolExecutor(max_workers=workers, mp_context=ctx) as pool:
        futs = [pool.submit(_work, t) for t in tasks]
        for fut in as_completed(futs):
            _merge(total, fut.result())
        # thorough: keep drawing fresh random seeds until the wall budget is used
        round_no = 0
        next_index = {family: n for family, n in plan.items()}
        while deadline is not None and _real_time.time() < deadline and not total['failed'] and not total['harness']:
            round_no += 1
            extra = []
            for family in plan:
                if plan[family] <= 0:
                    continue
                for _ in range(max(1, (2 * workers) // max(1, len(plan)))):
                    start = next_index[family]
                    extra.append((prop, family, base, list(range(start, start + chunk)), 0))
                    next_index[family] = start + chunk
            futs = [pool.submit(_work, t) for t in extra]
            for fut in as_completed(futs):
                _merge(total, fut.result())
    # --- report -------------------------------------------------------------------------------------
    exit_code = 0
    for e in known:
        if e['property'] == prop and total['known_seen'].get(e['id']):
            print(f'KNOWN-FINDING: property={prop} {e["what"]} (seen in {total["known_seen"][e["id"]]} runs; '
                  f'clause {e["clause"]})')
    replay_paths: List[str] = []
    if total['failed']:
        exit_code = 1
        done_clauses = set()
        for fail in sorted(total['failed'], key=lambda f: len(f['trace'])):
            clauses = tuple(sorted({v['clause'] for v in fail['violations']}))
            if all(c in done_clauses for c in clauses) or len(replay_paths) >= 4:
                continue
            fail['violations'] = [v for v in fail['violations'] if v['clause'] not in done_clauses]
            done_clauses.update(clauses)
            for status, path, vinfo in _write_replay(prop, fail, known, budget_runs=250):
                if status == 'nondet':
                    problems.append(f'violation did not reproduce deterministically: {path}')
                print(f'{vinfo["clause"]}: {vinfo["message"]}')
                print(f'VIOLATION property={prop} replay={path}')
                replay_paths.append(path)
    for h in total['harness'][:3]:
        print(f'HARNESS-ERROR property={prop} family={h["family"]} seed={h["seed"]}\n{h["error"]}')
    for p in problems:
        print(f'HARNESS-ERROR property={prop} {p}')
    if (total['harness'] or problems) and exit_code == 0:
        exit_code = 2
    wall = _real_time.time() - t0
    _write_evidence(prop, mod, tier, base, total, wall, systematic_total, replay_paths, problems, workers)
    runs = total['runs']
    print(f'{prop} {tier}: {runs} runs in {wall:.1f}s ({runs / max(wall, 1e-9) * 3600:.0f}/h), '
          f'{len(total["digests"])} distinct histories, {sum(total["faults"].values())} faults fired, '
          f'{total["sim_seconds"]:.0f} simulated s, violations={len(total["failed"])}, exit={exit_code}')
    return exit_code


def _new_total() -> Dict[str, Any]:
    return {'runs': 0, 'digests': set(), 'nontrivial': set(), 'sigs': set(), 'faults': Counter(),
            'faults_cfg': Counter(), 'probes': Counter(), 'sched': Counter(), 'sim_seconds': 0.0, 'steps': 0,
            'events': 0, 'sched_decisions': 0, 'failed': [], 'harness': [], 'samples': [], 'known_seen': Counter(),
            'families': Counter(), 'failed_more': 0}


def _merge(total: Dict[str, Any], agg: Dict[str, Any]) -> None:
    total['runs'] += agg['runs']
    total['families'][agg['family']] += agg['runs']
    for key in ('digests', 'nontrivial', 'sigs'):
        total[key].update((agg['family'], d) for d in agg[key])
    for key in ('faults', 'faults_cfg', 'probes', 'sched', 'known_seen'):
        total[key].update(agg[key])
    for key in ('sim_seconds', 'steps', 'events', 'sched_decisions'):
        total[key] += agg[key]
    total['failed'].extend(agg['failed'])
    total['failed_more'] += agg.get('failed_more', 0)
    total['harness'].extend(agg['harness'])
    if len(total['samples']) < 6:
        total['samples'].extend(agg['samples'][:2])


def _write_evidence(prop: str, mod: Any, tier: str, base: int, total: Dict[str, Any], wall: float,
                    systematic_total: int, replay_paths: List[str], problems: List[str], workers: int) -> None:
    os.makedirs(EVIDENCE_DIR, exist_ok=True)
    runs = total['runs']
    cov = {
        'evaluations': runs,
        'distinct_nontrivial': len(total['nontrivial']),
        'rule': getattr(mod, 'RULE', '') or (
            'one evaluation = one seeded simulated run (scenario, fault plan and schedule drawn from one choice '
            'stream); distinct = distinct SHA-256 digest of the recorded event history; non-trivial = at least one '
            'fault fired or at least two scheduling decisions had more than one alternative'),
        'samples': total['samples'][:6],
        'runs': runs,
        'runs_per_hour': round(runs / max(wall, 1e-9) * 3600),
        'seeds_per_hour': round(runs / max(wall, 1e-9) * 3600),
        'sim_seconds': round(total['sim_seconds'], 3),
        'events_recorded': total['events'],
        'scheduler_steps': total['steps'],
        'faults_fired': dict(sorted(total['faults'].items())),
        'faults_configured': dict(sorted(total['faults_cfg'].items())),
        'schedulers': dict(sorted(total['sched'].items())),
        'sched_decisions_with_alternatives': total['sched_decisions'],
        'distinct_digests': len(total['digests']),
        'distinct_interleavings': len(total['sigs']),
        'probes': dict(sorted(total['probes'].items())),
        'families': dict(sorted(total['families'].items())),
        'systematic_placements': systematic_total,
        'real_components': getattr(mod, 'REAL', []),
        'stub_components': getattr(mod, 'STUB', []),
        'known_findings_seen': dict(sorted(total['known_seen'].items())),
        'harness_errors': len(total['harness']) + len(problems),
        'replays': replay_paths,
        'workers': workers,
        'exhaustive': False,
    }
    extra = getattr(mod, 'evidence_extra', None)
    if extra is not None:
        cov.update(extra(total))
    doc = {
        'property_id': prop, 'tier': tier, 'seed': base, 'level': mod.LEVEL, 'coverage': cov,
        'assumptions': getattr(mod, 'ASSUMPTIONS', []),
        'wall_s': round(wall, 2),
        'violations': len(total['failed']) + total['failed_more'],
    }
    with open(os.path.join(EVIDENCE_DIR, f'{prop}.json'), 'w') as f:
        json.dump(doc, f, indent=1, default=repr)


def main(argv: Optional[List[str]] = None) -> int:
    ap = argparse.ArgumentParser(prog='pjsim.runner')
    ap.add_argument('prop')
    ap.add_argument('rest', nargs='*')
    ap.add_argument('--tier', default=os.environ.get('VERIF_TIER', 'quick'), choices=['quick', 'thorough'])
    ap.add_argument('--replay')
    ap.add_argument('--strict-digest', action='store_true')
    ap.add_argument('--print-digests', type=int)
    ap.add_argument('--digest-map', type=int)
    ap.add_argument('--deep', type=int)
    ap.add_argument('--workers', type=int, default=int(os.environ.get('VERIF_WORKERS', '16')))
    ap.add_argument('--budget', type=float, default=float(os.environ['VERIF_BUDGET_S'])
                    if os.environ.get('VERIF_BUDGET_S') else None)
    args = ap.parse_args(argv)
    logging.disable(logging.CRITICAL)
    base = int(os.environ.get('VERIF_SEED', '0') or 0)
    if args.prop == 'selftest' and args.deep:
        return selftest_deep([p.upper() for p in (args.rest or CLAIMED)], base, args.deep)
    if args.prop == 'selftest':
        props = args.rest or CLAIMED
        bad: List[str] = []
        for p in props:
            bad += selftest_determinism(p, base, per_family=8)
        for b in bad:
            print('SELFTEST-FAIL ' + b)
        print(f'selftest: {len(props)} properties, {len(bad)} problems')
        return 2 if bad else 0
    prop = args.prop.upper()
    if args.print_digests is not None:
        return print_digests(prop, base, args.print_digests)
    if args.digest_map is not None:
        print(json.dumps(digest_map(prop, base, args.digest_map, args.workers)))
        return 0
    if args.replay:
        return run_replay(prop, args.replay, args.strict_digest)
    return run_check(prop, args.tier, base, args.workers, args.budget)


if __name__ == '__main__':
    sys.exit(main())
