"""Seeded generators of JSON values, ids and logical calls (all draws go through Choices; 0 = simplest)."""
from __future__ import annotations

from typing import Any, Dict, List, Optional, Tuple

from .choices import Choices

SCALARS: List[Any] = [1, 0, None, True, False, -1, 'a', '', 'x y', 1.5, 'é☃', 2 ** 40, -0.25, '\n"\\', 10 ** 20]
DURATIONS: List[float] = [0.0, 0.25, 0.5, 1.0, 2.0, 3.0, 32.0]        # dyadic rationals: sums are exact
PAUSES: List[float] = [0.0, 0.0, 0.125, 1.0, 30.0]
REQ_IDS: List[Any] = [1, 0, -1, 2, 'abc', '', '1', 2 ** 62, 'id-é', 3, 7]


def json_value(ch: Choices, depth: int = 2, label: str = 'json') -> Any:
    kind = ch.weighted([6, 1, 1] if depth > 0 else [1], label + '.kind')
    if kind == 0:
        return ch.choice(SCALARS, label + '.scalar')
    n = ch.draw(3, label + '.len')
    if kind == 1:
        return [json_value(ch, depth - 1, label) for _ in range(n)]
    return {ch.choice(['k', 'a', 'b', '', 'tok'], label + '.key'): json_value(ch, depth - 1, label) for _ in range(n)}


class LogicalCall:
    """One intended invocation: method, positional or named arguments, call or notification."""

    __slots__ = ('method', 'args', 'kwargs', 'notification', 'tok')

    def __init__(self, method: str, args: Tuple[Any, ...], kwargs: Dict[str, Any], notification: bool, tok: Optional[str]):
        self.method = method
        self.args = args
        self.kwargs = kwargs
        self.notification = notification
        self.tok = tok

    def describe(self) -> Dict[str, Any]:
        return {'method': self.method, 'args': list(self.args), 'kwargs': self.kwargs,
                'notification': self.notification}


ERR_CODES: List[int] = [2001, 2002, 1, -1, 12345, -32000, -32099, -32602, 2 ** 53 + 1, -32600, -32700, -32601]
ERR_MESSAGES: List[str] = ['m', 'boom', 'x y z', 'é']
EXC_KINDS: List[str] = ['value', 'key', 'type', 'assert', 'runtime', 'custom', 'lookup', 'oserror', 'validation',
                        'badrepr', 'timeout', 'aio_timeout', 'fut_cancelled', 'connreset', 'zerodiv', 'notimpl', 'attr',
                        'recursion', 'group', 'unicode', 'stopaiter', 'handled_proto_ctx', 'lib_identity', 'lib_deser',
                        'lib_base']


def logical_call(ch: Choices, tok: str, allow_fail: bool = True, allow_notification: bool = True,
                 positional_only: bool = False, zero_ok: bool = False, extra_codes: Tuple[int, ...] = (),
                 extra_messages: Tuple[str, ...] = (), exotic: bool = False, allow_single: bool = False,
                 ctx_methods: bool = False, reentrant: bool = False) -> LogicalCall:
    weights = [4, 2, 1, 2, 3 if allow_fail else 0, 2 if allow_fail else 0, 1, 2, 2, 1, 2,
               1 if allow_fail else 0, 1 if exotic else 0, 1 if allow_single else 0, 1, 1 if ctx_methods else 0,
               1 if ctx_methods else 0, 1 if ctx_methods else 0, 1 if ctx_methods else 0, 1, 1,
               2 if reentrant else 0]
    kind = ch.weighted(weights, 'call.kind')
    named = (not positional_only) and ch.flag(1, 3, 'call.named')
    notification = allow_notification and ch.flag(1, 4, 'call.notification')
    if kind == 0:
        method, argmap = 'echo', [('tok', tok), ('value', json_value(ch, 2, 'arg'))]
        if ch.flag(1, 5, 'call.default'):
            argmap = argmap[:1]
    elif kind == 1:
        method, argmap = 'add', [('tok', tok), ('a', ch.choice([1, 0, -5, 2 ** 40, 1.5], 'arg.a'))]
        if ch.flag(1, 2, 'call.b'):
            argmap.append(('b', ch.choice([1, 0, 7, -2.5], 'arg.b')))
    elif kind == 2:
        method, argmap = 'none', [('tok', tok)]
    elif kind == 3:
        method, argmap = 'pair', [('tok', tok), ('x', json_value(ch, 1, 'arg')), ('y', json_value(ch, 1, 'arg'))]
    elif kind == 4:
        codes = ERR_CODES + list(extra_codes)
        msgs = ERR_MESSAGES + list(extra_messages)
        method = 'fail_proto'
        argmap = [('tok', tok), ('code', ch.choice(codes, 'err.code')), ('message', ch.choice(msgs, 'err.message'))]
        mode = ch.choice(['absent', 'null', 'value'], 'err.data_mode')
        if mode != 'absent':
            argmap.append(('data_mode', mode))
            if mode == 'value':
                argmap.append(('data', json_value(ch, 2, 'err.data')))
    elif kind == 5:
        method, argmap = 'fail_exc', [('tok', tok), ('kind', ch.choice(EXC_KINDS, 'exc.kind'))]
    elif kind == 6:
        method, argmap = 'slow', [('tok', tok)]
    elif kind == 8:
        method, argmap = 'typed', [('tok', tok), ('n', ch.choice([1, 0, -3, 2 ** 40, 5.0], 'arg.n'))]
        if ch.flag(1, 2, 'call.label'):
            argmap.append(('label', ch.choice(['a', 'b'], 'arg.label')))
    elif kind == 11:
        method, argmap = 'fail_typed', [('tok', tok), ('resource', ch.choice(['r1', 7, None, ['x']], 'arg.resource'))]
    elif kind == 12:
        method, argmap = 'mixed_keys', [('tok', tok)]
        if ch.flag(1, 2, 'call.n'):
            argmap.append(('n', ch.choice([1, 0, 'x'], 'arg.n')))
    elif kind == 13:
        method, argmap = 'single', [('value', ch.choice([{'a': 1}, {'value': 2}, [1], 'v', 0, {}], 'arg.single'))]
        tok = None  # type: ignore[assignment]
    elif kind == 21:
        method, argmap = 'nest', [('tok', tok)]
    elif kind == 20:
        method, argmap = 'vstatic', [('tok', tok)]
    elif kind == 19:
        method, argmap = '_status', [('tok', tok)]
    elif kind == 18:
        method, argmap = '\u043d\u0435\u0442/none \u2713 \U0001F600', [('tok', tok)]
    elif kind == 17:
        method, argmap = 'echo_guarded', [('tok', tok)]
    elif kind == 15:
        method, argmap = 'whoami', [('tok', tok)]
    elif kind == 16:
        method, argmap = 'whoami_explicit', [('tok', tok), ('ctx', ch.choice(['me', {'mark': 'forged'}, 7], 'arg.ctx'))]
    elif kind == 14:
        method, argmap = 'kwonly', [('tok', tok)]
        if not positional_only and ch.flag(2, 3, 'call.kwonly_extras'):
            named = True     # keyword-only parameters can be passed by name only
            if ch.flag(1, 2, 'call.flag'):
                argmap.append(('flag', bool(ch.draw(2, 'arg.flag'))))
            if ch.flag(1, 2, 'call.level'):
                argmap.append(('level', ch.choice([3, 0, 'hi'], 'arg.level')))
    elif kind == 10:
        method, argmap = 'vecho', [('tok', tok)]
        if ch.flag(2, 3, 'call.value'):
            argmap.append(('value', json_value(ch, 1, 'arg')))
    elif kind == 9:
        method, argmap = 'typed_default', [('tok', tok)]
        if ch.flag(1, 2, 'call.flag'):
            argmap.append(('flag', bool(ch.draw(2, 'arg.flag'))))
    else:
        method = ch.choice(['op_ab', 'op_ba'], 'call.op')
        first, second = ('a', 'b') if method == 'op_ab' else ('b', 'a')
        argmap = [('tok', tok), (first, ch.choice([1, 2, 'x', None], 'arg.first'))]
        if ch.flag(2, 3, 'call.second'):
            argmap.append((second, ch.choice([5, 7, 'y'], 'arg.second')))
    if named:
        return LogicalCall(method, (), dict(argmap), notification, tok)
    return LogicalCall(method, tuple(v for _, v in argmap), {}, notification, tok)
