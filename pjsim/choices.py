"""The single choice stream of a run: generate, replay, minimise.

``Choices.draw(n)`` is the only source of nondeterminism in a simulated run.
In *generate* mode values come from ``random.Random(seed)`` (after an optional
forced prefix, used by systematic sweeps); in *replay* mode they are read from
a recorded list (reading past the end yields 0, the simplest choice).  The
values actually used are appended to ``trace``; a replay file stores that
trace and nothing else is needed to reproduce the run.
"""
from __future__ import annotations

import hashlib
import random
from typing import Any, Callable, List, Optional, Sequence, Tuple


def derive_seed(*parts: Any) -> int:
    """Stable (hash-seed independent) 64-bit seed from arbitrary printable parts."""
    h = hashlib.sha256('/'.join(str(p) for p in parts).encode()).digest()
    return int.from_bytes(h[:8], 'big')


class Choices:
    __slots__ = ('_rng', '_replay', '_pos', 'trace', 'radices', 'seed', 'labels', '_keep_labels', '_forced')

    def __init__(self, seed: Optional[int] = None, prefix: Sequence[int] = (), replay: Optional[Sequence[int]] = None,
                 keep_labels: bool = False, forced: Optional[dict] = None):
        self.seed = seed
        if replay is not None:
            self._replay: Optional[List[int]] = list(replay)
            self._rng = None
        else:
            self._replay = list(prefix) if prefix else None
            self._rng = random.Random(seed)
        # systematic sweeps: label -> values forced onto the successive draws carrying that label (generate mode only)
        self._forced = {k: list(v) for k, v in forced.items()} if forced and replay is None else None
        self._pos = 0
        self.trace: List[int] = []
        self.radices: List[int] = []
        self.labels: List[str] = []
        self._keep_labels = keep_labels

    # -- primitive -----------------------------------------------------
    def draw(self, n: int, label: str = '') -> int:
        """Integer in [0, n).  n <= 1 consumes nothing and returns 0."""
        if n <= 1:
            return 0
        rep = self._replay
        forced = self._forced
        if forced is not None and forced.get(label):
            v = forced[label].pop(0) % n
            if self._rng is not None:
                self._rng.randrange(n)  # keep the stream position independent of what was forced
        elif rep is not None and self._pos < len(rep):
            v = rep[self._pos] % n
        elif self._rng is not None:
            v = self._rng.randrange(n)
        else:
            v = 0
        self._pos += 1
        self.trace.append(v)
        self.radices.append(n)
        if self._keep_labels:
            self.labels.append(label)
        return v

    # -- conveniences (all built on draw) --------------------------------
    def choice(self, seq: Sequence[Any], label: str = '') -> Any:
        return seq[self.draw(len(seq), label)]

    def flag(self, num: int, den: int, label: str = '') -> bool:
        """True with probability num/den.  0 (the simplest choice) means False."""
        if num <= 0:
            return False
        if num >= den:
            return True
        # draw in [0, den); the *top* num values mean True so that 0 is False
        return self.draw(den, label) >= den - num

    def weighted(self, weights: Sequence[int], label: str = '') -> int:
        """Index i with probability weights[i]/sum; index 0 is the simplest."""
        total = sum(weights)
        v = self.draw(total, label)
        acc = 0
        for i, w in enumerate(weights):
            acc += w
            if v < acc:
                return i
        return len(weights) - 1

    def subset(self, seq: Sequence[Any], num: int, den: int, label: str = '') -> List[Any]:
        return [x for x in seq if self.flag(num, den, label)]

    def shuffle(self, seq: Sequence[Any], label: str = '') -> List[Any]:
        out = list(seq)
        for i in range(len(out) - 1, 0, -1):
            j = i - self.draw(i + 1, label)  # 0 keeps the element in place
            out[i], out[j] = out[j], out[i]
        return out

    def int_between(self, lo: int, hi: int, label: str = '') -> int:
        return lo + self.draw(hi - lo + 1, label)


def minimise(
    trace: Sequence[int],
    still_fails: Callable[[List[int]], bool],
    max_runs: int = 400,
) -> Tuple[List[int], int]:
    """Shrink a choice list while ``still_fails`` holds.

    Passes: drop the tail, delete chunks (halving sizes), zero single values,
    lower single values.  Bounded by ``max_runs`` re-executions.  Returns the
    shrunk list and the number of re-executions used.
    """
    best = list(trace)
    runs = 0

    def attempt(cand: List[int]) -> bool:
        nonlocal runs, best
        if runs >= max_runs or cand == best:
            return False
        runs += 1
        if still_fails(cand):
            best = cand
            return True
        return False

    # 1. truncate tail (replay past the end yields zeros)
    lo, hi = 0, len(best)
    while lo < hi and runs < max_runs:
        mid = (lo + hi) // 2
        if attempt(best[:mid]):
            hi = len(best)
            hi = mid
        else:
            lo = mid + 1
    # 2. delete chunks
    size = max(1, len(best) // 2)
    while size >= 1 and runs < max_runs:
        i = 0
        progressed = False
        while i < len(best) and runs < max_runs:
            cand = best[:i] + best[i + size:]
            if attempt(cand):
                progressed = True
            else:
                i += size
        if size == 1 and not progressed:
            break
        size = size // 2 if size > 1 else (1 if progressed else 0)
    # 3. zero / lower values
    changed = True
    rounds = 0
    while changed and runs < max_runs and rounds < 3:
        changed = False
        rounds += 1
        for i in range(len(best)):
            if runs >= max_runs:
                break
            if i >= len(best) or best[i] == 0:
                continue
            if attempt(best[:i] + [0] + best[i + 1:]):
                changed = True
                continue
            v = best[i]
            if v > 1 and attempt(best[:i] + [v // 2] + best[i + 1:]):
                changed = True
                continue
            if v > 1 and attempt(best[:i] + [v - 1] + best[i + 1:]):
                changed = True
    # strip trailing zeros (equivalent under replay)
    while best and best[-1] == 0:
        best = best[:-1]
    return best, runs
