"""C13 - requests are independent: nothing leaks from one dispatch into the next.

Long-lived shared dispatchers under histories, deterministic thread interleavings (baton threads) and
concurrent tasks, every reply compared with the reply of a fresh, identically configured dispatcher; and the
garbage collector as the oracle for "after the dispatch returns only the registry survives": weak references
to the per-request context, the view instance, the parsed request and the response must all be dead.
"""
from __future__ import annotations

import asyncio
import gc
import json
import os
import weakref
from typing import Any, Dict, List, Optional, Tuple

import pjrpc
import pjrpc.server
from pjrpc.common.exceptions import JsonRpcErrorMeta
import pjrpc.server.validators.jsonschema as pj_jsonschema

from .. import gen
from .. import serverscn as S
from .. import service as SVC
from ..ref import jsonrpc as R
from ..stack import ensure_loop
from ..threads import BatonScheduler
from ..world import World

PROP = 'C13'
LEVEL = 'exploration'
STEP_CAP = 400000
REAL = ['pjrpc/server/dispatcher.py (shared Dispatcher / AsyncDispatcher, Method / ViewMethod.bind, registry)',
        'pjrpc/server/validators/base.py (process-global signature cache)', 'pjrpc/server/validators/jsonschema.py',
        'pjrpc/server/validators/pydantic.py (only if functional under the installed pydantic)',
        'pjrpc/common/exceptions.py (error-class registry)', 'pjrpc/common/v20.py', 'CPython threads and garbage collector']
STUB = ['the choice of which thread runs (baton passing at sys.settrace line events inside pjrpc and the service)',
        'event loop (SimLoop) for concurrent dispatch tasks']
ASSUMPTIONS = ['registered methods keep no state of their own; tokens are unique, so any cross-talk is visible',
               'a weak reference that is dead after gc.collect() means the library kept no strong reference',
               'thread pre-emption happens at line boundaries of pjrpc / service code only (never inside C calls)']


class Ctx:
    def __init__(self, n: int):
        self.mark = f'ctx-{n}'


def _corpus(ch: Any, prefix: str, n: int) -> List[str]:
    texts = []
    for k in range(n):
        info = S.gen_document(ch, max_len=3, allow_junk=True)
        # make tokens unique across the whole history
        texts.append(info['text'].replace('"t', f'"{prefix}{k}_t').replace("'t", f"'{prefix}{k}_t"))
    return texts


def _reply_view(outcome: Tuple[str, Any]) -> Any:
    if outcome[0] == 'raise':
        return ['raise', type(outcome[1]).__name__]
    if outcome[1] is None:
        return None
    return [outcome[1][0], list(outcome[1][1])]


def fam_history(w: World) -> None:
    ch = w.ch
    n = 2 + ch.draw(60, 'history.len')
    cfg = S.draw_config(ch, 3, middlewares=True, handlers=True)
    if ch.flag(1, 5, 'srv.single_use_encoder'):
        cfg['hooks'] = 'single_use_encoder'   # a user encoder class whose instances serve one document each
    texts = _corpus(ch, 'h', n)
    for k in range(n):
        for j in range(4):
            w.plan[('method', f'h{k}_t{j}')] = [ch.choice(gen.PAUSES, 'pause.d') for _ in range(ch.draw(2, 'pause.n'))]
    w.scenario = {'cfg': cfg, 'history_len': n, 'first': texts[:2]}
    w.nontrivial = True
    shared = S.ServerUnderTest(w, cfg, node='shared')
    for k, text in enumerate(texts):
        got = _reply_view(shared.deliver(text))
        fresh = S.ServerUnderTest(w, cfg, node=f'fresh{k}')
        want = _reply_view(fresh.deliver(text))
        if got != want:
            w.violate('C13.history', f'request {k} of the history got {json.dumps(got)[:150]} from the long-lived '
                      f'dispatcher and {json.dumps(want)[:150]} from a fresh one: {text[:100]}', mode='history',
                      **{'async': cfg['async']})
            return


def fam_threads(w: World) -> None:
    ch = w.ch
    n_threads = [2, 3, 4, 5, 8, 16][ch.weighted([4, 4, 3, 2, 2, 1], 'threads.n')]
    per = 1 + ch.draw(3, 'threads.per')
    cfg = S.draw_config(ch, 3, middlewares=True, handlers=True, force_async=False)
    if ch.flag(1, 5, 'srv.single_use_encoder'):
        cfg['hooks'] = 'single_use_encoder'   # a user encoder class whose instances serve one document each
    corpora = [_corpus(ch, f'th{i}x', per) for i in range(n_threads)]
    if ch.flag(1, 2, 'threads.first_use_race'):
        # every thread starts with a call to a method that has a validator with per-method arguments: whatever the
        # library sets up lazily at the first use of a method is set up by several threads at once
        name = ch.choice(['typed', 'typed', 'typed_default', 'vecho'], 'threads.first_use_method')
        for i, texts in enumerate(corpora):
            # half of the threads send arguments the method's own schema refuses (but a foreign or missing schema accepts)
            params = [f'th{i}first', 'x' if i % 2 else 1] if name == 'typed' else [f'th{i}first']
            texts.insert(0, json.dumps({'jsonrpc': '2.0', 'method': name, 'params': params, 'id': i}))
    w.scenario = {'cfg': cfg, 'threads': n_threads, 'per_thread': per, 'first': corpora[0][:1]}
    w.nontrivial = True
    expected = []
    for i, texts in enumerate(corpora):
        fresh = S.ServerUnderTest(w, cfg, node=f'fresh{i}')
        expected.append([_reply_view(fresh.deliver(t)) for t in texts])
    shared = S.ServerUnderTest(w, cfg, node='shared')
    sched = BatonScheduler(w, switch_den=ch.choice([4, 8, 16, 2, 3], 'threads.den'),
                           extra_files=[os.path.abspath(SVC.__file__), os.path.abspath(S.__file__)])

    def worker(texts: List[str]) -> Any:
        def run() -> List[Any]:
            out = []
            for t in texts:
                try:
                    out.append(_reply_view(('ret', shared.dispatcher.dispatch(t, None))))
                except Exception as e:  # noqa: BLE001
                    out.append(['raise', type(e).__name__])
            return out
        return run

    results = sched.run([worker(t) for t in corpora])
    w.sig_parts = list(w.sched_trace[:200])
    for i, (got, want) in enumerate(zip(results, expected)):
        if got != want:
            k = next((j for j in range(len(want)) if got is None or j >= len(got) or got[j] != want[j]), 0)
            w.violate('C13.threads', f'thread {i}, request {k}: shared dispatcher replied '
                      f'{json.dumps(got[k] if got else None)[:140]}, a fresh one {json.dumps(want[k])[:140]} '
                      f'({n_threads} threads, {sched.switches} switches)', mode='threads')
            return


def fam_tasks(w: World) -> None:
    ch = w.ch
    n_tasks = 2 + ch.draw(3, 'tasks.n')
    cfg = S.draw_config(ch, 3, middlewares=True, handlers=True, force_async=True)
    if ch.flag(1, 5, 'srv.single_use_encoder'):
        cfg['hooks'] = 'single_use_encoder'   # a user encoder class whose instances serve one document each
    texts = _corpus(ch, 'k', n_tasks)
    for k in range(n_tasks):
        for j in range(4):
            tok = f'k{k}_t{j}'
            w.plan[('method', tok)] = [ch.choice(gen.PAUSES, 'pause.d') for _ in range(ch.draw(3, 'pause.n'))]
            for i in range(len(cfg['middlewares'])):
                w.plan[('mw', i, tok)] = [ch.choice(gen.PAUSES, 'pause.d') for _ in range(ch.draw(2, 'pause.mw'))]
            for hs in cfg['handlers'].values():
                for hid, _ in hs:
                    w.plan[('eh', hid, tok)] = [ch.choice(gen.PAUSES, 'pause.d') for _ in range(ch.draw(2, 'pause.eh'))]
    w.scenario = {'cfg': cfg, 'tasks': n_tasks, 'first': texts[:1]}
    w.nontrivial = True
    expected = []
    for k, t in enumerate(texts):
        fresh = S.ServerUnderTest(w, cfg, node=f'fresh{k}')
        expected.append(_reply_view(fresh.deliver(t)))
    shared = S.ServerUnderTest(w, cfg, node='shared')
    loop = shared.loop
    assert loop is not None

    async def one(t: str) -> Any:
        try:
            return _reply_view(('ret', await shared.dispatcher.dispatch(t, None)))
        except Exception as e:  # noqa: BLE001
            return ['raise', type(e).__name__]

    async def main() -> List[Any]:
        return list(await asyncio.gather(*(one(t) for t in texts)))

    results = loop.run_until_complete(main())
    for k, (got, want) in enumerate(zip(results, expected)):
        if got != want:
            w.violate('C13.tasks', f'concurrent dispatch {k}: shared dispatcher replied {json.dumps(got)[:140]}, a '
                      f'fresh one {json.dumps(want)[:140]}', mode='tasks')
            return


# --- leaks ---------------------------------------------------------------------------------------------------------
def _pydantic_functional() -> bool:
    try:
        from pjrpc.server.validators import pydantic as vp
        v = vp.PydanticValidator()

        def probe(a: int) -> int:
            return a
        v.validate_method(probe, [1])
        return True
    except Exception:  # noqa: BLE001
        return False


PYDANTIC_OK: Optional[bool] = None

LEAK_VARIANTS = ['function', 'function_positional_ctx', 'view', 'jsonschema', 'jsonschema_view', 'pydantic', 'pydantic_view']


def fam_leak(w: World) -> None:
    global PYDANTIC_OK
    ch = w.ch
    if PYDANTIC_OK is None:
        PYDANTIC_OK = _pydantic_functional()
    variant = LEAK_VARIANTS[ch.draw(len(LEAK_VARIANTS), 'leak.variant')]
    if variant.startswith('pydantic') and not PYDANTIC_OK:
        w.probe('pydantic_variant_skipped_not_functional')
        variant = 'view' if variant.endswith('view') else 'function'
    is_async = bool(ch.draw(2, 'leak.async'))
    n = [1, 10, 1000][ch.weighted([3, 3, 1], 'leak.n')]
    outcome_kind = ch.choice(['ok', 'nobind', 'raises', 'notification', 'batch', 'noparams', 'named'], 'leak.request')
    w.scenario = {'variant': variant, 'async': is_async, 'dispatches': n, 'request': outcome_kind}
    w.nontrivial = True
    w.probe('leak.' + variant)
    weak: List[Tuple[str, Any]] = []
    validator: Any = None
    vkw: Dict[str, Any] = {}
    if variant.startswith('jsonschema'):
        validator = pj_jsonschema.JsonSchemaValidator()
        vkw = {'schema': {'type': 'object', 'properties': {'tok': {'type': 'string'}, 'value': {'type': 'integer'}},
                          'additionalProperties': False}}
    elif variant.startswith('pydantic'):
        from pjrpc.server.validators import pydantic as pj_pydantic
        validator = pj_pydantic.PydanticValidator()
    registry = pjrpc.server.MethodRegistry()

    def maybe_validate(fn: Any) -> Any:
        return validator.validate(fn, **vkw) if validator is not None else fn

    if variant.endswith('view') or variant == 'view':
        class LeakView(pjrpc.server.ViewMixin):
            def __init__(self, context: Any):
                super().__init__()
                self.context = context
                weak.append(('view', weakref.ref(self)))

            def work(self, tok: str = 'dflt', value: int = 0) -> Any:
                if value == -1:
                    raise ValueError('scripted')
                return [tok, value]
        if validator is not None:
            LeakView.work = maybe_validate(LeakView.work)  # type: ignore[method-assign]
        registry.view(LeakView, context='context')
        method_name = 'work'
    else:
        positional = variant == 'function_positional_ctx'

        def work(ctx: Any, tok: str = 'dflt', value: int = 0) -> Any:
            if value == -1:
                raise ValueError('scripted')
            return [tok, value]
        registry.add(maybe_validate(work), 'work', context='ctx', positional=positional)
        method_name = 'work'

    def capture_sync(request: Any, context: Any, handler: Any) -> Any:
        weak.append(('request', weakref.ref(request)))
        resp = handler(request, context)
        if isinstance(resp, pjrpc.Response):
            weak.append(('response', weakref.ref(resp)))
        return resp

    async def capture_async(request: Any, context: Any, handler: Any) -> Any:
        weak.append(('request', weakref.ref(request)))
        resp = await handler(request, context)
        if isinstance(resp, pjrpc.Response):
            weak.append(('response', weakref.ref(resp)))
        return resp

    cls = pjrpc.server.AsyncDispatcher if is_async else pjrpc.server.Dispatcher
    disp = cls(middlewares=[capture_async if is_async else capture_sync], error_handlers={})
    disp.add_methods(registry)
    loop = ensure_loop(w) if is_async else None
    registry_before = dict(JsonRpcErrorMeta.__errors_mapping__)

    def text_for(k: int) -> str:
        tok = f'L{k}'
        if outcome_kind == 'ok':
            doc: Any = {'jsonrpc': '2.0', 'method': method_name, 'params': [tok, k], 'id': k}
        elif outcome_kind == 'nobind':
            doc = {'jsonrpc': '2.0', 'method': method_name, 'params': {'tok': tok, 'zzz': 1}, 'id': k}
        elif outcome_kind == 'raises':
            doc = {'jsonrpc': '2.0', 'method': method_name, 'params': [tok, -1], 'id': k}
        elif outcome_kind == 'noparams':
            doc = {'jsonrpc': '2.0', 'method': method_name, 'id': k}
        elif outcome_kind == 'named':
            doc = {'jsonrpc': '2.0', 'method': method_name, 'params': {'tok': tok, 'value': k}, 'id': k}
        elif outcome_kind == 'notification':
            doc = {'jsonrpc': '2.0', 'method': method_name, 'params': [tok, k]}
        else:
            doc = [{'jsonrpc': '2.0', 'method': method_name, 'params': [tok, k], 'id': 1},
                   {'jsonrpc': '2.0', 'method': method_name, 'params': {'tok': tok}, 'id': 'b'},
                   {'jsonrpc': '2.0', 'method': 'nosuch', 'id': 3}]
        return json.dumps(doc)

    replies = []
    for k in range(n):
        ctx_obj = Ctx(k)
        weak.append(('context', weakref.ref(ctx_obj)))
        text = text_for(k)
        try:
            if is_async:
                assert loop is not None
                reply = loop.run_until_complete(disp.dispatch(text, ctx_obj))
            else:
                reply = disp.dispatch(text, ctx_obj)
        except Exception as e:  # noqa: BLE001
            w.violate('C13.leak.raises', f'dispatch raised {type(e).__name__}: {e}', variant=variant)
            return
        replies.append(reply)
        del ctx_obj, reply
    w.rec('server', 'leak.dispatched', n=n, variant=variant, first=replies[0][0][:120] if replies[0] else None)
    first = replies[0]
    if outcome_kind in ('ok', 'noparams', 'named') and (first is None or '"result"' not in first[0]):
        w.violate('C13.leak.reply', f'variant {variant}: unexpected reply {first!r}', variant=variant)
    del replies, first
    gc.collect()
    alive: Dict[str, int] = {}
    total: Dict[str, int] = {}
    for kind, ref in weak:
        total[kind] = total.get(kind, 0) + 1
        if ref() is not None:
            alive[kind] = alive.get(kind, 0) + 1
    w.rec('server', 'leak.census', total=total, alive=alive)
    if alive:
        w.violate('C13.leak', f'after {n} dispatches ({variant}, {"async" if is_async else "sync"}, {outcome_kind}) and '
                  f'gc.collect() these per-request objects are still referenced: {alive} of {total}',
                  variant=variant, kinds=sorted(alive))
    if dict(JsonRpcErrorMeta.__errors_mapping__) != registry_before:
        w.violate('C13.registry', 'the error-class registry changed while dispatching', variant=variant)


def fam_cancel(w: World) -> None:
    """A dispatch is cancelled while its (batch) elements are suspended: nothing of it may live on afterwards."""
    ch = w.ch
    cfg = S.draw_config(ch, 3, middlewares=True, handlers=False, force_async=True)
    cfg['max_batch_size'] = None
    cfg['concurrent_batch'] = not ch.flag(1, 4, 'sequential')
    n = 1 + ch.draw(3, 'n')
    ids = ch.shuffle(S.ELEMENT_IDS, 'ids')
    els = []
    for k in range(n):
        tok = f'x{k}'
        els.append({'jsonrpc': '2.0', 'method': ch.choice(['slow', 'echo', 'none'], 'method'), 'params': [tok],
                    **({} if ch.flag(1, 4, 'notification') else {'id': ids[k]})})
        w.plan[('method', tok)] = [ch.choice([0.125, 1.0, 30.0, 0.0], 'pause.d') for _ in range(1 + ch.draw(2, 'pause.n'))]
        for i in range(len(cfg['middlewares'])):
            w.plan[('mw', i, tok)] = [ch.choice(gen.PAUSES, 'pause.d') for _ in range(ch.draw(2, 'pause.mw'))]
    text = json.dumps(els if (n > 1 or ch.draw(2, 'as_batch')) else els[0])
    cancel_at = ch.choice([0.0, 0.0625, 0.125, 0.5, 1.0, 1.125, 2.0, 30.0, 31.0], 'cancel.at')
    w.scenario = {'cfg': cfg, 'text': text, 'cancel_at': cancel_at}
    w.nontrivial = True
    ctx_obj = Ctx(0)
    ctx_ref = weakref.ref(ctx_obj)
    sut = S.ServerUnderTest(w, cfg, node='shared', extra_kwargs={'concurrent_batch': cfg['concurrent_batch']})
    loop = sut.loop
    assert loop is not None
    task = loop.create_task(sut.dispatcher.dispatch(text, ctx_obj))
    cancelled = []

    def do_cancel() -> None:
        if not task.done():
            cancelled.append(w.now)
            w.fault('cancel', at=w.now)
            task.cancel()

    loop.call_at(w.now + cancel_at, do_cancel)
    try:
        loop.run_until_complete(task)
        outcome = 'returned'
    except asyncio.CancelledError:
        outcome = 'cancelled'
    except Exception as e:  # noqa: BLE001
        w.violate('C13.cancel', f'dispatch raised {type(e).__name__}: {e}', mode='cancel')
        return
    mark = w.rec('server', 'cancel.done', outcome=outcome)
    del task, ctx_obj
    if outcome == 'cancelled':
        w.probe('dispatch_cancelled_mid_flight')
    # serve an unrelated request on the same dispatcher and let every timer of the cancelled one expire
    probe_text = json.dumps({'jsonrpc': '2.0', 'method': 'echo', 'params': ['probe', 1], 'id': 99})
    got = _reply_view(sut.deliver(probe_text))
    fresh = S.ServerUnderTest(w, cfg, node='fresh', extra_kwargs={'concurrent_batch': cfg['concurrent_batch']})
    want = _reply_view(fresh.deliver(probe_text))
    if got != want:
        w.violate('C13.cancel', f'after a cancelled dispatch the probe got {got}, a fresh dispatcher {want}', mode='cancel')

    # let the loop deliver the cancellation to every element (no clock jump), then nothing may pin the context
    from ..loop import settle
    settle(loop)
    gc.collect()
    if ctx_ref() is not None:
        w.violate('C13.leak', f'the context of a {outcome} dispatch is still referenced after the dispatch ended, the next '
                  f'request was served and gc.collect() ran', variant='cancel', kinds=['context'])
        return

    async def drain() -> None:
        await asyncio.sleep(100.0)
    loop.run_until_complete(drain())
    if outcome == 'cancelled':
        # delivery of CancelledError to sibling elements right after the cancellation is clean-up, not progress
        late = [r for r in w.history if r['seq'] > mark and r['node'] == 'shared' and str(r.get('tok', '')).startswith('x')
                and not (r['kind'] == 'method.exit' and r.get('exc') == 'CancelledError')
                and not (r['kind'] == 'mw.exit')]
        if late:
            w.violate('C13.cancel', f'work of the cancelled dispatch went on after it had been cancelled: '
                      f'{[(r["kind"], r.get("tok")) for r in late][:4]}', mode='cancel', late=late[0]['kind'])
    gc.collect()
    if ctx_ref() is not None:
        w.violate('C13.leak', f'the context of a {outcome} dispatch is still referenced after gc.collect()',
                  variant='cancel', kinds=['context'])


def _census() -> Dict[str, int]:
    """Number of live gc-tracked objects per type (after a full collection)."""
    from collections import Counter
    gc.collect()
    return dict(Counter(type(o).__module__ + '.' + type(o).__qualname__ for o in gc.get_objects()))


def fam_growth(w: World) -> None:
    """Memory does not grow with the number of requests served: object census before and after N dispatches.

    The requests differ from one another in every part a client controls (token, id, params, and - for the
    failing kinds - the method name), so anything keyed by request content shows up as growth."""
    ch = w.ch
    is_async = bool(ch.draw(2, 'growth.async'))
    kind = ch.choice(['ok', 'unknown_method', 'nobind', 'raises', 'notification', 'batch', 'invalid', 'not_json'],
                     'growth.kind')
    n = ch.choice([200, 400], 'growth.n')
    cfg = S.draw_config(ch, 3, middlewares=True, handlers=True, force_async=is_async)
    cfg['max_batch_size'] = None
    w.scenario = {'cfg': cfg, 'kind': kind, 'dispatches': n}
    w.nontrivial = True
    w.probe('growth.' + kind)
    sut = S.ServerUnderTest(w, cfg, node='shared')
    disp, loop = sut.dispatcher, sut.loop

    def text_for(k: int) -> str:
        tok = f'g{k}'
        if kind == 'ok':
            doc: Any = {'jsonrpc': '2.0', 'method': 'echo', 'params': [tok, {'k': k}], 'id': k}
        elif kind == 'unknown_method':
            doc = {'jsonrpc': '2.0', 'method': f'nosuch.{k}.m{k}', 'params': [tok], 'id': f'id{k}'}
        elif kind == 'nobind':
            doc = {'jsonrpc': '2.0', 'method': 'pair', 'params': {'tok': tok, f'zz{k}': k}, 'id': k}
        elif kind == 'raises':
            doc = {'jsonrpc': '2.0', 'method': 'fail_exc', 'params': [tok, 'value'], 'id': k}
        elif kind == 'notification':
            doc = {'jsonrpc': '2.0', 'method': 'echo', 'params': [tok, k]}
        elif kind == 'batch':
            doc = [{'jsonrpc': '2.0', 'method': 'echo', 'params': [tok, k], 'id': k},
                   {'jsonrpc': '2.0', 'method': f'nosuch{k}', 'id': f's{k}'},
                   {'jsonrpc': '2.0', 'method': 'vecho', 'params': [tok]}]
        elif kind == 'invalid':
            doc = {'jsonrpc': '2.0', 'method': k, 'id': k}
        else:
            return '{"jsonrpc": "2.0", "method": "echo", "id": %d' % k
        return json.dumps(doc)

    def run(k: int) -> None:
        ctx_obj = Ctx(k)
        if is_async:
            assert loop is not None
            loop.run_until_complete(disp.dispatch(text_for(k), ctx_obj))
        else:
            disp.dispatch(text_for(k), ctx_obj)

    w.recording = False            # the history must not grow either: this family measures the process
    try:
        for k in range(30):        # warm-up: whatever is created once per method / code / configuration
            run(k)
        before = _census()
        for k in range(30, 30 + n):
            run(k)
        after = _census()
    except Exception as e:  # noqa: BLE001
        w.recording = True
        w.violate('C13.growth', f'dispatch raised {type(e).__name__}: {e}', kind=kind)
        return
    w.recording = True
    grown = {t: after[t] - before.get(t, 0) for t in after if after[t] - before.get(t, 0) >= n // 2}
    w.rec('server', 'growth.census', dispatches=n, grown=sorted(grown))
    if grown:
        worst = max(grown, key=lambda t: grown[t])
        w.violate('C13.growth', f'after {n} more dispatches ({kind}, {"async" if is_async else "sync"}) the number of live '
                  f'objects grew with the number of requests: {dict(sorted(grown.items(), key=lambda kv: -kv[1])[:4])}',
                  kind=kind, worst=worst)


FAMILIES = {'history': fam_history, 'threads': fam_threads, 'tasks': fam_tasks, 'leak': fam_leak, 'cancel': fam_cancel,
            'growth': fam_growth}
PLAN = {
    'quick': {'history': 2100, 'threads': 6000, 'tasks': 3500, 'leak': 2800, 'cancel': 4000, 'growth': 320},
    'thorough': {'history': 10000, 'threads': 10000, 'tasks': 20000, 'leak': 10000, 'cancel': 20000, 'growth': 1600},
}
CHUNK = 25
THOROUGH_BUDGET_S = 600


def evidence_extra(total: Dict[str, Any]) -> Dict[str, Any]:
    return {'pydantic_variant_ran': bool(total['probes'].get('leak.pydantic') or total['probes'].get('leak.pydantic_view')),
            'note': 'PydanticValidator is exercised only if a smoke validation succeeds under the installed pydantic'}
