"""C06 - deserialisation is strict and total (as seen from the wire).

Structure-aware corruption of every member of messages in flight, in both directions: on the response leg
the real client must end in a normal outcome or in the library's deserialisation / identity error (never
AssertionError, KeyError, TypeError, AttributeError ...), and must never accept a structurally invalid
message; on the request leg the same holds observed through the real server.  Plus failure atomicity of
batch construction under id collisions coming from the id-generator seam, and append/extend histories.
"""
from __future__ import annotations

import json
from typing import Any, Dict, Iterable, List, Optional, Tuple

import pjrpc
from pjrpc.common.exceptions import BaseError, DeserializationError, IdentityError, JsonRpcError

from .. import faults as F
from .. import gen
from .. import serverscn as S
from ..ref import client as RC
from ..ref import jsonrpc as R
from ..stack import Stack
from ..world import World

PROP = 'C06'
LEVEL = 'fault_enumeration'
REAL = ['pjrpc/common/v20.py (Request / Response / BatchRequest / BatchResponse: from_json, append, extend)',
        'pjrpc/common/exceptions.py (JsonRpcError.from_json, __init__)',
        'pjrpc/client/client.py (decoding path of _send, batch add with the id generator)',
        'pjrpc/server/dispatcher.py (decoding path of dispatch)']
STUB = ['transport (SimNet with structure-aware member faults on both legs)', 'id generator (scripted collisions)']
ASSUMPTIONS = ['a missing id member in a response is an open zone (accepted either way)',
               'JSONDecodeError may surface for undecodable text only']

CLASSES = ['success', 'error', 'error_object']
RESP_NAMES = ['jsonrpc', 'id', 'result', 'error']
ERR_NAMES = ['code', 'message', 'data']


def _members(cls: int) -> Tuple[List[str], Dict[str, List[Any]]]:
    return (ERR_NAMES, F.ERROR_MEMBERS) if cls == 2 else (RESP_NAMES, F.RESPONSE_MEMBERS)


def _allowed_exception(e: BaseException) -> bool:
    return isinstance(e, (DeserializationError, IdentityError, json.JSONDecodeError, JsonRpcError))


def fam_response(w: World) -> None:
    ch = w.ch
    cls = ch.draw(3, 'sys.class')
    double = ch.draw(2, 'sys.double')
    names, alphabets = _members(cls)
    m1 = ch.draw(len(names), 'sys.m1')
    v1 = ch.draw(len(alphabets[names[m1]]), 'sys.v1')
    edits = [(names[m1], alphabets[names[m1]][v1])]
    if double:
        rest = [n for n in names if n != names[m1]]
        m2 = ch.draw(len(rest), 'sys.m2')
        v2 = ch.draw(len(alphabets[rest[m2]]), 'sys.v2')
        edits.append((rest[m2], alphabets[rest[m2]][v2]))
    batch = bool(ch.draw(2, 'batch'))
    n = 1 + ch.draw(3, 'n') if batch else 1
    idx = ch.draw(n, 'idx')
    strict = not ch.flag(1, 3, 'nonstrict')
    client_async = bool(ch.draw(2, 'client_async'))
    via = ch.choice(['send', 'call'], 'via')
    whole = ch.flag(1, 10, 'nonobject_body')
    if whole:
        fault: Tuple[Any, ...] = ('replace', json.dumps(ch.choice(F.NONOBJECT_ALPHABET, 'nonobject')))
    else:
        fault = ('error_member' if cls == 2 else 'member', idx, edits)
    # the victim element fails iff the class is about error objects
    ids = ch.shuffle(gen.REQ_IDS, 'ids')[:n]
    reqs = []
    for k in range(n):
        if k == idx and cls in (1, 2):
            reqs.append(pjrpc.Request('fail_proto', [f't{k}', 2001, 'boom', 'value', {'d': 1}], ids[k]))
        else:
            reqs.append(pjrpc.Request('echo', [f't{k}', ch.choice([1, 0, None, '', [], 'v'], 'value')], ids[k]))
    w.scenario = {'class': CLASSES[cls], 'edits': edits, 'batch': batch, 'n': n, 'idx': idx, 'strict': strict,
                  'client_async': client_async, 'via': via, 'fault': fault}
    w.nontrivial = True
    ctx = {'leg': 'response', 'class': CLASSES[cls], 'members': [e[0] for e in edits], 'batch': batch, 'via': via}
    st = Stack(w, client_async, bool(ch.draw(2, 'server_async')), client_kwargs={'strict': strict},
               script=[{'resp': fault}])
    try:
        if batch:
            b = st.client.batch
            breq = pjrpc.BatchRequest(*reqs)
            if via == 'send':
                val = st.run(lambda: b.send(breq))
                if val is not None and not val.is_error:
                    for r in val:
                        try:
                            r.result
                        except JsonRpcError:
                            pass
            else:
                b._requests = breq
                val = st.run(lambda: b.call())
        elif via == 'send':
            val = st.run(lambda: st.client.send(reqs[0]))
            try:
                val.result
            except JsonRpcError:
                pass
        else:
            cl = st.client
            cl.id_gen_impl = lambda: iter([ids[0]])
            r0 = reqs[0]
            val = st.run(lambda: cl.call(r0.method, *r0.params))
        outcome: Tuple[Any, ...] = ('value', val)
    except Exception as e:  # noqa: BLE001
        outcome = ('raise', e)
    deliver = [r for r in w.history if r['kind'] == 'wire.deliver']
    reply_text = deliver[-1]['text'] if deliver else None
    sent_doc = json.loads(st.net.sent[0])
    exp = RC.match_batch(sent_doc, reply_text, strict) if batch else RC.match_single(sent_doc, reply_text, strict)
    v = exp['verdict']
    w.probe('verdict.' + v)
    ok_json, reply_doc = R.strict_loads(reply_text) if reply_text is not None else (False, None)
    if ok_json:
        direct_decode(w, reply_doc, 'response', ctx)
    if outcome[0] == 'raise' and not _allowed_exception(outcome[1]):
        e = outcome[1]
        w.violate('C06.escape', f'{type(e).__name__}: {str(e)[:80]} escaped while deserialising {str(reply_text)[:120]!r}',
                  exc=type(e).__name__, **ctx)
        return
    if v == 'open':
        return
    accepted = outcome[0] == 'value' or (isinstance(outcome[1], JsonRpcError))
    if v in ('deser', 'decode') and accepted:
        w.violate('C06.accepted_invalid', f'a structurally invalid reply was accepted ({exp.get("why")}): '
                  f'{str(reply_text)[:140]!r}', why=str(exp.get('why'))[:40], **ctx)
    if v == 'deser' and outcome[0] == 'raise' and not isinstance(outcome[1], (DeserializationError, IdentityError)):
        e = outcome[1]
        w.violate('C06.wrong_error', f'invalid reply raised {type(e).__name__} instead of the deserialisation error',
                  exc=type(e).__name__, **ctx)
    if v in ('accept', 'batch_error') and outcome[0] == 'raise' and not isinstance(outcome[1], JsonRpcError):
        e = outcome[1]
        w.violate('C06.refused_valid', f'a valid reply was refused with {type(e).__name__}: {str(e)[:80]}; reply '
                  f'{str(reply_text)[:120]!r}', exc=type(e).__name__, **ctx)


class OwnErrorBase(pjrpc.exceptions.JsonRpcError):
    """The base of an error hierarchy of the caller's own; it registers no code."""


def _valid_batch_response(doc: Any) -> Any:
    """None if doc is something a batch request can be answered with, else the reason."""
    if isinstance(doc, list):
        for el in doc:
            why = R.valid_response(el)
            if why:
                return f'element: {why}'
        return None
    why = R.valid_response(doc)
    if why:
        return why
    if 'error' not in doc or doc.get('id') is not None:
        return 'an object answering a batch must be an error object with a null id'
    return None


def _valid_batch_request(doc: Any) -> Any:
    if not isinstance(doc, list):
        return 'a batch request is an array'
    if not doc:
        return 'a batch request is not empty'
    for el in doc:
        if not R.valid_request(el):
            return 'element is not a valid request object'
    return None


def direct_decode(w: World, doc: Any, leg: str, ctx: Dict[str, Any]) -> None:
    """Feed the message that was in flight to each deserialiser directly (what custom transports do)."""
    from pjrpc.common.exceptions import JsonRpcError as JE
    targets: List[Tuple[str, Any, Any, Any]] = []
    if leg == 'response':
        targets.append(('Response.from_json', pjrpc.Response.from_json, doc, R.valid_response))
        targets.append(('BatchResponse.from_json', pjrpc.BatchResponse.from_json, doc, _valid_batch_response))
        # the same with an error base class of the caller's own (a hierarchy that registers no typed errors)
        targets.append(('Response.from_json[error_cls]',
                        lambda d: pjrpc.Response.from_json(d, error_cls=OwnErrorBase), doc, R.valid_response))
        targets.append(('BatchResponse.from_json[error_cls]',
                        lambda d: pjrpc.BatchResponse.from_json(d, error_cls=OwnErrorBase), doc, _valid_batch_response))
        for el in (doc if isinstance(doc, list) else [doc]):
            if isinstance(el, dict) and 'error' in el:
                targets.append(('JsonRpcError.from_json', JE.from_json, el['error'], R.valid_error))
                targets.append(('OwnErrorBase.from_json', OwnErrorBase.from_json, el['error'], R.valid_error))
    else:
        targets.append(('Request.from_json', pjrpc.Request.from_json, doc,
                        lambda d: None if R.valid_request(d) else 'not a valid request object'))
        targets.append(('BatchRequest.from_json', pjrpc.BatchRequest.from_json, doc, _valid_batch_request))
    for name, fn, arg, validator in targets:
        try:
            fn(arg)
        except (DeserializationError, IdentityError):
            continue
        except Exception as e:  # noqa: BLE001
            w.violate('C06.escape', f'{name}({json.dumps(arg)[:100]}) raised {type(e).__name__}: {str(e)[:60]}',
                      exc=type(e).__name__, direct=name, **ctx)
            return
        if validator is not None:
            why = validator(arg)
            if why:
                w.violate('C06.accepted_invalid', f'{name} accepted {json.dumps(arg)[:100]}: {why}',
                          why=str(why)[:40], direct=name, **ctx)
                return


def fam_request(w: World) -> None:
    """Request leg: member corruption of a client's request, observed through the real server."""
    ch = w.ch
    double = ch.draw(2, 'sys.double')
    names = ['jsonrpc', 'id', 'method', 'params']
    m1 = ch.draw(4, 'sys.m1')
    v1 = ch.draw(len(F.REQUEST_MEMBERS[names[m1]]), 'sys.v1')
    edits = [(names[m1], F.REQUEST_MEMBERS[names[m1]][v1])]
    if double:
        rest = [n for n in names if n != names[m1]]
        m2 = ch.draw(3, 'sys.m2')
        v2 = ch.draw(len(F.REQUEST_MEMBERS[rest[m2]]), 'sys.v2')
        edits.append((rest[m2], F.REQUEST_MEMBERS[rest[m2]][v2]))
    batch = bool(ch.draw(2, 'batch'))
    n = 1 + ch.draw(3, 'n') if batch else 1
    idx = ch.draw(n, 'idx')
    ids = ch.shuffle(gen.REQ_IDS, 'ids')[:n]
    els = [{'jsonrpc': '2.0', 'method': 'echo', 'params': [f't{k}', k], 'id': ids[k]} for k in range(n)]
    doc: Any = els if batch else els[0]
    whole = ch.flag(1, 10, 'nonobject_body')
    if whole:
        text = json.dumps(ch.choice(F.NONOBJECT_ALPHABET, 'nonobject'))
    else:
        text = F.apply_req_fault(json.dumps(doc), ('member', idx, edits))
    cfg = S.draw_config(ch, n)
    cfg['max_batch_size'] = None
    S.plan_pauses(w, cfg, n)
    w.scenario = {'edits': edits, 'batch': batch, 'text': text, 'cfg': cfg}
    w.nontrivial = True
    w.fault('req_member')
    ctx = {'leg': 'request', 'members': [e[0] for e in edits], 'batch': batch, 'async': cfg['async']}
    sut = S.ServerUnderTest(w, cfg)
    S.judge_delivery(w, PROP, sut, text, ('wellformed', 'reference'), ctx)
    direct_decode(w, json.loads(text), 'request', ctx)


class _ScriptedIds:
    def __init__(self, seq: List[Any]):
        self.seq = seq

    def __call__(self) -> Any:
        return iter(self.seq)


def fam_idgen(w: World) -> None:
    """A colliding id from the generator seam: add raises IdentityError, the batch stays as it was."""
    ch = w.ch
    n = 2 + ch.draw(3, 'n')
    collide_at = 1 + ch.draw(n - 1, 'collide_at')
    collide_with = ch.draw(collide_at, 'collide_with')
    pool = ch.shuffle(gen.REQ_IDS, 'ids')
    seq = pool[:n]
    seq[collide_at] = seq[collide_with]
    seq = seq + pool[n:n + 2]
    client_async = bool(ch.draw(2, 'client_async'))
    w.scenario = {'ids': seq, 'collide_at': collide_at, 'client_async': client_async}
    w.nontrivial = True
    w.fault('idgen_collision')
    ctx = {'leg': 'idgen', 'client_async': client_async}
    st = Stack(w, client_async, False, client_kwargs={'id_gen_impl': _ScriptedIds(seq)})
    b = st.client.batch
    added: List[Tuple[str, int]] = []
    raised = False
    for k in range(n):
        try:
            b.add('echo', f't{k}', k)
            added.append((f't{k}', k))
        except IdentityError:
            raised = True
            if k != collide_at:
                w.violate('C06.identity', f'add #{k} raised IdentityError but the collision was scripted at #{collide_at}', **ctx)
        except Exception as e:  # noqa: BLE001
            w.violate('C06.escape', f'batch.add raised {type(e).__name__}: {e}', exc=type(e).__name__, **ctx)
            return
    if not raised:
        w.violate('C06.identity', f'adding a request with the duplicate id {seq[collide_at]!r} did not raise', **ctx)
    try:
        st.run(lambda: b.call())
    except JsonRpcError:
        pass
    except Exception as e:  # noqa: BLE001
        w.violate('C06.batch_unchanged', f'call() after a refused add raised {type(e).__name__}: {e}', **ctx)
        return
    sent = json.loads(st.net.sent[0]) if st.net.sent else None
    got = [tuple(el.get('params', [])) for el in sent] if isinstance(sent, list) else None
    if got != [tuple(a) for a in added]:
        w.violate('C06.batch_unchanged', f'after a refused add the wire carries {got}, expected exactly the previously '
                  f'added requests {added}', **ctx)


def fam_history(w: World) -> None:
    """append / extend histories of up to 4 ids on BatchRequest and BatchResponse, against a list model."""
    ch = w.ch
    is_resp = bool(ch.draw(2, 'response'))
    alphabet: List[Any] = [1, 2, '1', None, 'a', 0, '']
    model: List[Any] = []
    batch: Any = pjrpc.BatchResponse() if is_resp else pjrpc.BatchRequest()
    ops = []
    ctx = {'leg': 'history', 'cls': 'BatchResponse' if is_resp else 'BatchRequest'}
    w.nontrivial = True

    def mk(i: Any) -> Any:
        return pjrpc.Response(id=i, result=0) if is_resp else pjrpc.Request('m', [len(ops)], i)

    for step in range(1 + ch.draw(4, 'ops')):
        if ch.draw(2, 'op'):
            ids = [ch.choice(alphabet, 'id') for _ in range(ch.draw(4, 'extend.n'))]
            op = ('extend', ids)
        else:
            ids = [ch.choice(alphabet, 'id')]
            op = ('append', ids)
        ops.append(op)
        present = [i for i in model if i is not None]
        dup = False
        seen = list(present)
        for i in ids:
            if i is None:
                continue
            if any(RC.same_id(i, s) for s in seen):
                dup = True
                break
            seen.append(i)
        items = [mk(i) for i in ids]
        # extend() takes any iterable of messages: a list, a tuple, or a one-shot generator / iterator
        form = ch.choice(['list', 'tuple', 'generator', 'iterator', 'lenient_batch'], 'extend.form') if op[0] == 'extend' \
            else 'one'
        if op[0] == 'extend':
            op = ('extend', ids, form)
            ops[-1] = op
            w.probe('extend.' + form)
        try:
            if op[0] == 'append':
                batch.append(items[0])
            else:
                if form == 'lenient_batch':
                    # the messages come in another batch object, one that was built without id checks
                    source = type(batch)(strict=False)
                    source.extend(items)
                    batch.extend(source)
                else:
                    batch.extend(items if form == 'list' else tuple(items) if form == 'tuple' else
                                 (x for x in items) if form == 'generator' else iter(items))
            ok = True
        except IdentityError:
            ok = False
            w.probe('history.identity_error')
        except Exception as e:  # noqa: BLE001
            w.violate('C06.escape', f'{op} raised {type(e).__name__}: {e}', exc=type(e).__name__, **ctx)
            return
        if ok and dup:
            w.violate('C06.identity', f'{op} on ids {model} accepted a duplicate id', **ctx)
            return
        if not ok and not dup:
            w.violate('C06.identity', f'{op} on ids {model} raised IdentityError without a duplicate', **ctx)
            return
        if ok:
            model.extend(ids)
        got = [x.id for x in batch]
        if got != model or len(batch) != len(model):
            w.violate('C06.batch_unchanged', f'after {op} ({"ok" if ok else "refused"}) the batch holds {got}, '
                      f'expected {model}', **ctx)
            return
    w.scenario = {'cls': ctx['cls'], 'ops': ops}


def systematic_response(tier: str) -> Iterable[List[int]]:
    for cls in range(3):
        names, alphabets = _members(cls)
        for m1, name in enumerate(names):
            for v1 in range(len(alphabets[name])):
                yield [cls, 0, m1, v1]
                if tier == 'thorough':
                    rest = [n for n in names if n != name]
                    for m2, name2 in enumerate(rest):
                        for v2 in range(len(alphabets[name2])):
                            yield [cls, 1, m1, v1, m2, v2]


def systematic_request(tier: str) -> Iterable[List[int]]:
    names = ['jsonrpc', 'id', 'method', 'params']
    for m1, name in enumerate(names):
        for v1 in range(len(F.REQUEST_MEMBERS[name])):
            yield [0, m1, v1]
            if tier == 'thorough':
                rest = [n for n in names if n != name]
                for m2, name2 in enumerate(rest):
                    for v2 in range(len(F.REQUEST_MEMBERS[name2])):
                        yield [1, m1, v1, m2, v2]


FAMILIES = {'wire.response': fam_response, 'wire.request': fam_request, 'batch.idgen': fam_idgen,
            'batch.history': fam_history}
SYSTEMATIC = {'wire.response': systematic_response, 'wire.request': systematic_request}
PLAN = {
    'quick': {'wire.response': 56000, 'wire.request': 35000, 'batch.idgen': 10500, 'batch.history': 21000},
    'thorough': {'wire.response': 60000, 'wire.request': 40000, 'batch.idgen': 10000, 'batch.history': 30000},
}
THOROUGH_BUDGET_S = 600
RULE = ('systematic part: every single (quick) and every double (thorough) member replacement from the per-member '
        'alphabets, per message class and leg, as forced choice prefixes; random part: seeded multi-member replacements, '
        'id-generator collisions and append/extend histories; distinct = distinct history digest; non-trivial = a '
        'member fault / collision was injected')
