"""C08 - the client matches responses to requests by id and rejects mismatches.

Fault enumeration on the response leg: the real dispatcher's true reply to a real client's batch / single
call is permuted, shortened, duplicated, extended, id-confused, replaced by a batch-level error, corrupted
member-wise or made undecodable in flight; the client's verdict is compared with the reference matcher.
"""
from __future__ import annotations

import itertools
import json
from typing import Any, Dict, Iterable, List, Optional, Tuple

import pjrpc
from pjrpc.common import UNSET
from pjrpc.common.exceptions import DeserializationError, IdentityError, JsonRpcError

from .. import faults as F
from .. import gen
from ..ref import client as RC
from ..ref import jsonrpc as R
from ..stack import Stack
from ..world import World

PROP = 'C08'
LEVEL = 'fault_enumeration'
REAL = ['pjrpc/client/client.py (_send, _relate of client and batch, Batch/AsyncBatch send/call)',
        'pjrpc/common/v20.py (Response / BatchResponse from_json, result, related)', 'pjrpc/common/exceptions.py',
        'pjrpc/server/dispatcher.py (producing the true reply that is then altered)']
STUB = ['transport (SimNet with response-leg fault operators)', 'event loop (SimLoop)']
ASSUMPTIONS = ['open zones of the reference matcher (null ids inside a batch array, non-strict mismatches) are not judged',
               'a body that is not JSON may surface as JSONDecodeError (a ValueError), Appendix F.2']

FAULT_KINDS = ['none', 'permute', 'omit', 'dup', 'extra', 'id_other', 'id_twin', 'id_null', 'id_foreign', 'batch_error',
               'member', 'error_member', 'not_json', 'truncate', 'unwrap', 'empty_array', 'null_error_extra',
               'null_and_dup']
ID_POOL: List[Any] = [1, '1', 2, 'abc', 0, '', -1, 'x', 10, '10',
                      # long ids (composite / UUID-like strings, a 45-digit integer)
                      'gateway-07/req-000041/sess-3f9a1c2e7b', '6f1e2d3c-0000-4a5b-8c7d-9e0f1a2b3c4d', 10 ** 44 + 7]


def _draw_fault(ch: Any, kind: str, n_calls: int) -> Optional[Tuple[Any, ...]]:
    if kind == 'none':
        return None
    if kind == 'permute':
        perm = ch.shuffle(list(range(max(1, n_calls))), 'fault.perm')
        return ('permute', perm)
    if kind == 'omit':
        return ('omit', ch.draw(max(1, n_calls), 'fault.idx'))
    if kind == 'dup':
        return ('dup', ch.draw(max(1, n_calls), 'fault.idx'), ch.draw(n_calls + 1, 'fault.pos'))
    if kind == 'extra':
        el = {'jsonrpc': '2.0', 'id': ch.choice(['zz-foreign', 99, 'f'], 'fault.foreign_id'), 'result': 'foreign'}
        return ('extra', el, ch.draw(n_calls + 1, 'fault.pos'))
    if kind.startswith('id_'):
        mode = kind[3:]
        return ('id', ch.draw(max(1, n_calls), 'fault.idx'), mode,
                ch.choice(['zz-foreign', 99], 'fault.foreign') if mode == 'foreign' else ch.draw(4, 'fault.other'))
    if kind == 'batch_error':
        return ('batch_error', ch.choice([-32600, 2001, -32000, 0], 'fault.code'), ch.choice(['boom', ''], 'fault.msg'))
    if kind == 'member':
        member = ch.choice(['jsonrpc', 'id', 'result', 'error'], 'fault.member')
        return ('member', ch.draw(max(1, n_calls), 'fault.idx'),
                [(member, ch.choice(F.RESPONSE_MEMBERS[member], 'fault.value'))])
    if kind == 'error_member':
        member = ch.choice(['code', 'message', 'data'], 'fault.member')
        return ('error_member', ch.draw(max(1, n_calls), 'fault.idx'),
                [(member, ch.choice(F.ERROR_MEMBERS[member], 'fault.value'))])
    if kind == 'not_json':
        return ('not_json', ch.choice(['<html>', '', 'null,', '{"jsonrpc"'], 'fault.text'))
    if kind == 'truncate':
        return ('truncate', ch.draw(200, 'fault.pos'))
    if kind == 'unwrap':
        return ('unwrap',)
    if kind == 'empty_array':
        return ('replace', '[]')
    if kind == 'null_error_extra':
        # what a server adds for a batch element it could not even identify
        el = {'jsonrpc': '2.0', 'id': None, 'error': {'code': -32600, 'message': 'Invalid Request'}}
        return ('extra', el, ch.draw(n_calls + 1, 'fault.pos'))
    if kind == 'null_and_dup':
        # two things at once: an id is repeated AND the array carries a null-id error entry (somewhere: in front of the
        # first occurrence, between the two, or behind both) - "repeats an id" holds whatever else the array contains
        el = {'jsonrpc': '2.0', 'id': None, 'error': {'code': -32600, 'message': 'Invalid Request'}}
        return ('seq', [('dup', ch.draw(max(1, n_calls), 'fault.idx'), ch.draw(n_calls + 1, 'fault.pos')),
                        ('extra', el, ch.draw(n_calls + 2, 'fault.pos2'))])
    raise ValueError(kind)


def _draw_calls(ch: Any, n: int) -> List[gen.LogicalCall]:
    calls = []
    for k in range(n):
        c = gen.logical_call(ch, f't{k}', allow_fail=True, allow_notification=False, extra_codes=(0,))
        calls.append(c)
    return calls


def _classify(exc: BaseException) -> str:
    if isinstance(exc, IdentityError):
        return 'identity'
    if isinstance(exc, DeserializationError):
        return 'deser'
    if isinstance(exc, JsonRpcError):
        return 'error'
    if isinstance(exc, json.JSONDecodeError):
        return 'decode'
    return 'other:' + type(exc).__name__


def _verdict_matches(verdict: str, got_kind: str) -> bool:
    if verdict == 'decode':
        return got_kind in ('decode', 'deser')
    return verdict == got_kind


def _error_matches(e: JsonRpcError, err: Dict[str, Any]) -> bool:
    if e.code != err['code'] or e.message != err['message']:
        return False
    if 'data' in err:
        return e.data is not UNSET and R.json_equal(e.data, err['data'])
    return e.data is UNSET


def fam_batch(w: World) -> None:
    ch = w.ch
    # structural draws first (fixed order: SYSTEMATIC prefixes enumerate them)
    n = 1 + ch.draw(4, 'sys.n_calls')
    kind = FAULT_KINDS[ch.draw(len(FAULT_KINDS), 'sys.fault')]
    strict = not bool(ch.draw(2, 'sys.nonstrict'))
    client_async = bool(ch.draw(2, 'sys.client_async'))
    via = ['send', 'call'][ch.draw(2, 'sys.via')]
    fault = _draw_fault(ch, kind, n)
    calls = _draw_calls(ch, n)
    n_notif = ch.draw(3, 'n_notifications')
    ids = ch.shuffle(ID_POOL, 'ids')[:n]
    server_async = bool(ch.draw(2, 'server_async'))
    w.scenario = {'calls': [c.describe() for c in calls], 'ids': ids, 'fault': fault, 'strict': strict, 'via': via,
                  'client_async': client_async, 'server_async': server_async, 'notifications': n_notif}
    w.nontrivial = True
    ctx = {'fault': kind, 'strict': strict, 'via': via, 'client_async': client_async, 'kind': 'batch', 'n': n}
    st = Stack(w, client_async, server_async, client_kwargs={'strict': strict},
               script=[{'resp': fault}] if fault else None)
    reqs = [pjrpc.Request(c.method, list(c.args) or dict(c.kwargs) or None, i) for c, i in zip(calls, ids)]
    notif_positions = sorted(ch.draw(len(reqs) + 1, 'notif.pos') for _ in range(n_notif))
    all_reqs = list(reqs)
    for j, pos in enumerate(notif_positions):
        all_reqs.insert(pos + j, pjrpc.Request('echo', [f'n{j}', j], None))
    b = st.client.batch
    breq = pjrpc.BatchRequest(*all_reqs)
    outcome: Tuple[Any, ...]
    try:
        if via == 'send':
            outcome = ('value', st.run(lambda: b.send(breq)))
        else:
            b._requests = breq  # the batch wrapper's own request list (what add()/notify() fill)
            outcome = ('value', st.run(lambda: b.call()))
    except Exception as e:  # noqa: BLE001
        outcome = ('raise', e)
    deliver = [r for r in w.history if r['kind'] == 'wire.deliver']
    reply_text = deliver[-1]['text'] if deliver else None
    sent_doc = json.loads(st.net.sent[0])
    _judge_batch(w, sent_doc, reply_text, strict, outcome, reqs, via, ctx)


def _judge_batch(w: World, sent_doc: Any, reply_text: Any, strict: bool, outcome: Tuple[Any, ...], reqs: List[Any],
                 via: str, ctx: Dict[str, Any]) -> None:
    """One batch exchange against the reference matcher."""
    exp = RC.match_batch(sent_doc, reply_text, strict)
    v = exp['verdict']
    w.probe('verdict.' + v)
    ctx['verdict'] = v
    if v == 'open':
        _check_null_id_error_not_lost(w, sent_doc, reply_text, strict, outcome, via, ctx)
        _check_related_in_open_zone(w, outcome, reqs, via, ctx)
        return
    if v in ('decode', 'deser', 'identity'):
        if outcome[0] != 'raise' or not _verdict_matches(v, _classify(outcome[1])):
            w.violate('C08.reject', f'reply {str(reply_text)[:120]!r} must be rejected ({v}: {exp.get("why", "")}), got '
                      f'{_describe(outcome)}', **ctx)
        return
    if v == 'batch_error':
        err = exp['error']
        if via == 'send':
            if outcome[0] != 'value' or not outcome[1].is_error or not _error_matches(outcome[1].get_error(), err):
                w.violate('C08.batch_error', f'batch-level error {err} not reported on the batch response: '
                          f'{_describe(outcome)}', **ctx)
                return
            try:
                outcome[1].result
                w.violate('C08.batch_error', 'BatchResponse.result did not raise the batch-level error', **ctx)
            except JsonRpcError as e:
                if not _error_matches(e, err):
                    w.violate('C08.batch_error', f'BatchResponse.result raised {e!r}, expected {err}', **ctx)
        elif outcome[0] != 'raise' or not isinstance(outcome[1], JsonRpcError) or not _error_matches(outcome[1], err):
            w.violate('C08.batch_error', f'batch-level error {err} must be raised for the batch, got '
                      f'{_describe(outcome)}', **ctx)
        return
    _check_accepted(w, exp, outcome, reqs, via, ctx)


def _check_related_in_open_zone(w: World, outcome: Tuple[Any, ...], reqs: List[Any], via: str, ctx: Dict[str, Any]) -> None:
    """Open zone (non-strict mismatches), narrowed: whatever else a lenient client does with an incomplete or padded
    reply, a response it hands out is linked to the request with the same id - never to another one."""
    if via != 'send' or outcome[0] != 'value' or not isinstance(outcome[1], pjrpc.BatchResponse):
        return
    resp = outcome[1]
    if resp.is_error:
        return
    ids = [r.id for r in resp]
    if len({json.dumps(i) for i in ids}) != len(ids):
        return    # the same id twice in the reply: which of the two is "the" response is open
    w.probe('open_zone.related_checked')
    for r in resp:
        want = next((q for q in reqs if RC.same_id(q.id, r.id)), None)
        rel = r.related
        if want is not None and rel is not want:
            w.violate('C08.related', f'response {r.id!r} is related to {rel!r} instead of the request with the same id '
                      f'(non-strict client, reply with gaps or strangers)', **ctx)
            return
        if want is None and rel is not None and r.id is not None:
            w.violate('C08.related', f'response {r.id!r} answers no call but is related to {rel!r}', **ctx)
            return


def _check_null_id_error_not_lost(w: World, sent_doc: Any, reply_text: Any, strict: bool, outcome: Tuple[Any, ...],
                                  via: str, ctx: Dict[str, Any]) -> None:
    """Open zone, narrowed: a reply that answers every call and additionally carries null-id ERROR objects.  Where such
    an entry is attributed is open, but a server error must not silently disappear: the results cannot be read as a
    clean tuple."""
    ok, doc = R.strict_loads(reply_text) if reply_text is not None else (False, None)
    if not ok or not isinstance(doc, list) or any(R.valid_response(el) for el in doc):
        return
    null_errors = [el for el in doc if el.get('id') is None and 'error' in el]
    rest = [el for el in doc if el.get('id') is not None]
    if not null_errors or len(null_errors) + len(rest) != len(doc):
        return
    if RC.match_batch(sent_doc, json.dumps(rest), strict)['verdict'] != 'accept':
        return
    w.probe('null_id_error_next_to_full_reply')
    if outcome[0] == 'raise':
        return   # refused or raised: the error did not get lost
    if via == 'send':
        resp = outcome[1]
        # where the null-id entry itself ends up is open, but it must not displace a call: position k is call k
        call_ids = [el['id'] for el in (sent_doc if isinstance(sent_doc, list) else [sent_doc]) if el.get('id') is not None]
        for k, cid in enumerate(call_ids):
            try:
                pos_id = resp[k].id
            except IndexError:
                pos_id = '<missing>'
            if not RC.same_id(pos_id, cid):
                w.violate('C08.position', f'response at position {k} has id {pos_id!r}; call {k} was made with id {cid!r} '
                          f'(a null-id entry in the reply must not displace the calls\' responses)', **ctx)
                return
        try:
            resp.result
            lost = True
        except JsonRpcError:
            lost = False
        if lost or not resp.has_error:
            w.violate('C08.error_lost', f'the reply carries the server error {null_errors[0]["error"]} (id null) next to '
                      f'the responses of all calls, but the results read as a clean tuple', **ctx)
    else:
        w.violate('C08.error_lost', f'the reply carries the server error {null_errors[0]["error"]} (id null) next to the '
                  f'responses of all calls, but batch.call() returned {outcome[1]!r}', **ctx)


def _check_accepted(w: World, exp: Dict[str, Any], outcome: Tuple[Any, ...], reqs: List[Any], via: str,
                    ctx: Dict[str, Any]) -> None:
    """An accepted batch reply: related links, positional and tuple attribution in call order, first failing call."""
    in_order = exp['replies_in_call_order']
    if exp['array'] != in_order:
        w.probe('accepted_reply_in_other_order')
        ctx['reordered'] = True
    first_err = next((el for el in in_order if 'error' in el), None)
    if via == 'send':
        if outcome[0] != 'value':
            w.violate('C08.accept', f'an acceptable reply was refused: {_describe(outcome)}', **ctx)
            return
        resp = outcome[1]
        for r in resp:
            rel = r.related
            want = next((q for q in reqs if RC.same_id(q.id, r.id)), None)
            if rel is not want:
                w.violate('C08.related', f'response {r.id!r} is related to {rel!r} instead of the request with the same '
                          f'id', **ctx)
        for k, q in enumerate(reqs):
            try:
                pos_id = resp[k].id
            except IndexError:
                pos_id = '<missing>'
            if not RC.same_id(pos_id, q.id):
                w.violate('C08.position', f'response at position {k} has id {pos_id!r}; call {k} was made with id '
                          f'{q.id!r} (results by position must follow call order)', **ctx)
                break
        try:
            tup = ('value', resp.result)
        except JsonRpcError as e:
            tup = ('raise', e)
    else:
        tup = outcome
    if first_err is None:
        want = [el['result'] for el in in_order]
        if tup[0] != 'value' or not isinstance(tup[1], tuple) or not R.json_equal(list(tup[1]), want):
            w.violate('C08.tuple', f'results {_describe(tup)} instead of {tuple(want)!r} (call order)', **ctx)
    else:
        if tup[0] != 'raise' or not isinstance(tup[1], JsonRpcError) or not _error_matches(tup[1], first_err['error']):
            w.violate('C08.first_error', f'expected the error of the first failing call (call order) '
                      f'{first_err["error"]}, got {_describe(tup)}', **ctx)



def fam_single(w: World) -> None:
    ch = w.ch
    kind = ['none', 'id_twin', 'id_null', 'id_foreign', 'member', 'error_member', 'not_json', 'truncate', 'unwrap',
            'batch_error'][ch.draw(10, 'sys.fault')]
    strict = not bool(ch.draw(2, 'sys.nonstrict'))
    client_async = bool(ch.draw(2, 'sys.client_async'))
    via = ['send', 'call'][ch.draw(2, 'sys.via')]
    fault = _draw_fault(ch, kind, 1)
    c = _draw_calls(ch, 1)[0]
    rid = ch.choice(ID_POOL, 'id')
    server_async = bool(ch.draw(2, 'server_async'))
    w.scenario = {'call': c.describe(), 'id': rid, 'fault': fault, 'strict': strict, 'via': via,
                  'client_async': client_async, 'server_async': server_async}
    w.nontrivial = fault is not None
    ctx = {'fault': kind, 'strict': strict, 'via': via, 'client_async': client_async, 'kind': 'single'}
    kwargs: Dict[str, Any] = {'strict': strict}
    if via == 'call':
        kwargs['id_gen_impl'] = lambda: iter([rid])
    st = Stack(w, client_async, server_async, client_kwargs=kwargs, script=[{'resp': fault}] if fault else None)
    req = pjrpc.Request(c.method, list(c.args) or dict(c.kwargs) or None, rid)
    try:
        if via == 'send':
            outcome: Tuple[Any, ...] = ('value', st.run(lambda: st.client.send(req)))
        else:
            outcome = ('value', st.run(lambda: st.client.call(c.method, *c.args, **c.kwargs)))
    except Exception as e:  # noqa: BLE001
        outcome = ('raise', e)
    deliver = [r for r in w.history if r['kind'] == 'wire.deliver']
    reply_text = deliver[-1]['text'] if deliver else None
    sent_doc = json.loads(st.net.sent[0])
    exp = RC.match_single(sent_doc, reply_text, strict)
    v = exp['verdict']
    w.probe('verdict.' + v)
    ctx['verdict'] = v
    if v == 'open':
        return
    if v in ('decode', 'deser', 'identity'):
        if outcome[0] != 'raise' or not _verdict_matches(v, _classify(outcome[1])):
            w.violate('C08.reject', f'reply {str(reply_text)[:120]!r} must be rejected ({v}: {exp.get("why", "")}), got '
                      f'{_describe(outcome)}', **ctx)
        return
    reply = exp['reply']
    if via == 'send':
        if outcome[0] != 'value':
            w.violate('C08.accept', f'an acceptable reply was refused: {_describe(outcome)}', **ctx)
            return
        resp = outcome[1]
        if resp.related is not req:
            w.violate('C08.related', 'the accepted response is not related to the request that was sent', **ctx)
        try:
            res: Tuple[Any, ...] = ('value', resp.result)
        except JsonRpcError as e:
            res = ('raise', e)
    else:
        res = outcome
    if 'result' in reply:
        if res[0] != 'value' or not R.json_equal(res[1], reply['result']):
            w.violate('C08.result', f'got {_describe(res)} instead of the reply\'s result {reply["result"]!r}', **ctx)
    elif res[0] != 'raise' or not isinstance(res[1], JsonRpcError) or not _error_matches(res[1], reply['error']):
        w.violate('C08.error', f'the server error {reply["error"]} must be raised to the caller, got {_describe(res)}', **ctx)


def _describe(outcome: Tuple[Any, ...]) -> str:
    if outcome[0] == 'raise':
        return f'raised {type(outcome[1]).__name__}: {str(outcome[1])[:80]}'
    return f'returned {outcome[1]!r}'[:140]


def fam_reuse(w: World) -> None:
    """One batch object is sent, grown, and sent again: attribution must follow call order every time."""
    ch = w.ch
    client_async = bool(ch.draw(2, 'client_async'))
    via = ['send', 'call'][ch.draw(2, 'via')]
    grow = ['extend', 'append', 'getitem', 'add'][ch.draw(4, 'grow')]
    rounds = 2 + ch.draw(2, 'rounds')
    sizes = [1 + ch.draw(3, 'size') for _ in range(rounds)]
    total = sum(sizes)
    ids = (ch.shuffle(ID_POOL, 'ids') + [100, 101, 102, 103])[:total]
    perms = [ch.shuffle(list(range(sum(sizes[:r + 1]))), 'perm') for r in range(rounds)]
    w.scenario = {'client_async': client_async, 'via': via, 'grow': grow, 'sizes': sizes, 'ids': ids, 'perms': perms}
    w.nontrivial = True
    script = [{'resp': ('permute', perm)} for perm in perms]
    st = Stack(w, client_async, bool(ch.draw(2, 'server_async')), client_kwargs={'strict': True}, script=script)
    b = st.client.batch
    breq = pjrpc.BatchRequest()
    if via == 'call' or grow in ('getitem', 'add'):
        b._requests = breq
    reqs: List[Any] = []
    k = 0
    for r in range(rounds):
        new = [pjrpc.Request('echo', [f't{k + j}', k + j], ids[k + j]) for j in range(sizes[r])]
        k += sizes[r]
        if grow == 'extend' or (grow in ('getitem', 'add') and r == 0 and False):
            breq.extend(new)
        elif grow == 'append':
            for q in new:
                breq.append(q)
        elif grow == 'add':
            gen_ids = iter([q.id for q in new])
            b._id_gen = gen_ids
            for q in new:
                b.add('echo', *q.params)
            new = list(b._requests)[len(reqs):]
        else:  # getitem: extends the wrapper's own request list (and calls); used for all but the measured send
            b._id_gen = iter([q.id for q in new])
            b._requests.extend([pjrpc.Request('echo', list(q.params), next(b._id_gen)) for q in new])
            new = list(b._requests)[len(reqs):]
        reqs += new
        target = b._requests if (via == 'call' or grow in ('getitem', 'add')) else breq
        ctx = {'fault': 'permute', 'strict': True, 'via': via, 'client_async': client_async, 'kind': 'reuse',
               'round': r, 'grow': grow}
        try:
            if via == 'send':
                outcome: Tuple[Any, ...] = ('value', st.run(lambda: b.send(target)))
            else:
                outcome = ('value', st.run(lambda: b.call()))
        except Exception as e:  # noqa: BLE001
            outcome = ('raise', e)
        deliver = [x for x in w.history if x['kind'] == 'wire.deliver']
        reply_text = deliver[-1]['text'] if deliver else None
        sent_doc = json.loads(st.net.sent[-1])
        exp = RC.match_batch(sent_doc, reply_text, True)
        if exp['verdict'] != 'accept':
            w.violate('C08.accept', f'round {r}: reference verdict {exp["verdict"]} for a permuted true reply', **ctx)
            return
        if exp['array'] != exp['replies_in_call_order']:
            w.probe('reuse.reply_in_other_order')
        _check_accepted(w, exp, outcome, reqs, via, ctx)
        if w.violations:
            return


def fam_inline(w: World) -> None:
    """Requests built inline: the caller keeps no reference of its own to the request objects."""
    import gc
    ch = w.ch
    client_async = bool(ch.draw(2, 'client_async'))
    batch = bool(ch.draw(2, 'batch'))
    n = 1 + ch.draw(3, 'n') if batch else 1
    ids = ch.shuffle(ID_POOL, 'ids')[:n]
    calls = _draw_calls(ch, n)
    w.scenario = {'client_async': client_async, 'batch': batch, 'ids': ids, 'calls': [c.describe() for c in calls]}
    w.nontrivial = True
    st = Stack(w, client_async, bool(ch.draw(2, 'server_async')), client_kwargs={'strict': True})
    ctx = {'kind': 'inline', 'batch': batch, 'client_async': client_async, 'via': 'send', 'fault': 'none', 'strict': True}

    def build() -> Any:
        reqs = [pjrpc.Request(c.method, list(c.args) or dict(c.kwargs) or None, i) for c, i in zip(calls, ids)]
        return pjrpc.BatchRequest(*reqs) if batch else reqs[0]

    try:
        if batch:
            b = st.client.batch
            resp = st.run(lambda: b.send(build()))
            del b
            items = list(resp)
        else:
            resp = st.run(lambda: st.client.send(build()))
            items = [resp]
    except Exception as e:  # noqa: BLE001
        w.violate('C08.accept', f'an acceptable reply was refused: {type(e).__name__}: {e}', **ctx)
        return
    gc.collect()
    want = {(type(i).__name__, i): c.method for c, i in zip(calls, ids)}
    for r in items:
        rel = r.related
        if rel is None or not RC.same_id(rel.id, r.id) or rel.method != want.get((type(r.id).__name__, r.id)):
            w.violate('C08.related', f'response {r.id!r} is linked to {rel!r}; every accepted response must stay linked to '
                      f'the request with the same id (the caller kept no reference of its own)', **ctx)
            return


def systematic_batch(tier: str) -> Iterable[List[int]]:
    """(n_calls x fault kind x strict x client kind x via): every combination of the structural draws."""
    max_n = 3 if tier == 'quick' else 4
    for n in range(max_n):
        for f in range(len(FAULT_KINDS)):
            for nonstrict in range(2):
                for ca in range(2):
                    for via in range(2):
                        yield [n, f, nonstrict, ca, via]


def systematic_single(tier: str) -> Iterable[List[int]]:
    for f in range(10):
        for nonstrict in range(2):
            for ca in range(2):
                for via in range(2):
                    yield [f, nonstrict, ca, via]


def fam_concurrent(w: World) -> None:
    """ONE kept batch wrapper (``b = client.batch``) with two or three explicit sends in flight at the same time on
    the asynchronous client; every reply is permuted or loses / gains an entry on its own.  Each send is judged on its
    own request and its own reply."""
    import asyncio
    ch = w.ch
    n_sends = 2 + ch.draw(2, 'concurrent.n')
    strict = not ch.flag(1, 4, 'nonstrict')
    kept_wrapper = not ch.flag(1, 4, 'wrapper_per_send')
    plans = []
    for k in range(n_sends):
        n = 1 + ch.draw(3, 'n_calls')
        kind = ch.choice(['permute', 'permute', 'none', 'omit', 'extra', 'dup'], 'fault')
        plans.append({'n': n, 'kind': kind, 'fault': _draw_fault(ch, kind, n),
                      'ids': ch.shuffle(ID_POOL, 'ids')[:n] if not ch.flag(1, 2, 'same_ids') else list(ID_POOL[:n]),
                      'start': ch.choice([0.0, 0.0, 0.125, 1.0], 'start'),
                      'pre': ch.choice([0.0, 0.125, 1.0, 2.0], 'pre'), 'post': ch.choice([0.0, 0.125, 1.0, 2.0], 'post')})
    w.scenario = {'sends': plans, 'strict': strict, 'kept_wrapper': kept_wrapper}
    w.nontrivial = True
    st = Stack(w, True, bool(ch.draw(2, 'server_async')), client_kwargs={'strict': strict})
    wrapper = st.client.batch
    breqs, outcomes = [], [None] * n_sends
    for k, p in enumerate(plans):
        reqs = [pjrpc.Request('echo', [f'q{k}_{j}', 10 * k + j], i) for j, i in enumerate(p['ids'])]
        breqs.append((reqs, pjrpc.BatchRequest(*reqs)))
        st.net.keyed_scripts[f'q{k}_0'] = [{'pre': p['pre'], 'post': p['post'], 'resp': p['fault'] or None}]

    async def one(k: int) -> None:
        await asyncio.sleep(plans[k]['start'])
        b = wrapper if kept_wrapper else st.client.batch
        try:
            outcomes[k] = ('value', await b.send(breqs[k][1]))
        except Exception as e:  # noqa: BLE001
            outcomes[k] = ('raise', e)

    async def main() -> None:
        await asyncio.gather(*(one(k) for k in range(n_sends)))

    assert st.loop is not None
    st.loop.run_until_complete(main())
    sends = [r for r in w.history if r['kind'] == 'wire.send']
    delivers = {r['key']: r for r in w.history if r['kind'] == 'wire.deliver'}
    if len(sends) >= 2 and any(r['kind'] == 'wire.deliver' and r['seq'] > sends[1]['seq'] and r['key'] == sends[0]['key']
                               for r in w.history):
        w.probe('sends_overlapped')
    for k, p in enumerate(plans):
        ctx = {'fault': p['kind'], 'strict': strict, 'via': 'send', 'client_async': True, 'kind': 'concurrent',
               'n': p['n'], 'kept_wrapper': kept_wrapper, 'send_index': k}
        d = delivers.get(f'q{k}_0')
        sent = next((r for r in sends if r['key'] == f'q{k}_0'), None)
        if sent is None or d is None:
            w.violate('C08.accept', f'send {k} has no wire record', **ctx)
            return
        _judge_batch(w, json.loads(sent['text']), d['text'], strict, outcomes[k], breqs[k][0], 'send', ctx)
        if w.violations:
            return


def fam_retried(w: World) -> None:
    """A batch sent by a client whose retry strategy lists the identity error: a rejected reply is followed by another
    delivery, and every delivery has to be matched afresh against the same request."""
    from pjrpc.client import retry as pj_retry
    from pjrpc.common.exceptions import IdentityError
    ch = w.ch
    client_async = bool(ch.draw(2, 'client_async'))
    via = ['send', 'call'][ch.draw(2, 'via')]
    n = 1 + ch.draw(3, 'n_calls')
    n_deliveries = 2 + ch.draw(2, 'deliveries')
    kinds = [ch.choice(['omit', 'extra', 'dup', 'permute', 'none', 'id_foreign', 'omit'], 'fault') for _ in range(n_deliveries)]
    faults = [_draw_fault(ch, k, n) for k in kinds]
    listed = ch.choice(['identity', 'base', 'exception'], 'listed')
    ids = ch.shuffle(ID_POOL, 'ids')[:n]
    n_notif = ch.draw(2, 'n_notifications')
    w.scenario = {'client_async': client_async, 'via': via, 'n': n, 'faults': faults, 'listed': listed, 'ids': ids,
                  'notifications': n_notif}
    w.nontrivial = True
    exc_cls = {'identity': IdentityError, 'base': pjrpc.exceptions.BaseError, 'exception': Exception}[listed]
    strategy = pj_retry.RetryStrategy(backoff=pj_retry.PeriodicBackoff(attempts=n_deliveries - 1, interval=0.0),
                                      exceptions={exc_cls})
    st = Stack(w, client_async, bool(ch.draw(2, 'server_async')),
               client_kwargs={'strict': True, 'retry_strategy': strategy}, script=[{'resp': f} for f in faults])
    reqs = [pjrpc.Request('echo', [f't{k}', k], i) for k, i in enumerate(ids)]
    all_reqs = list(reqs)
    for j in range(n_notif):
        all_reqs.insert(ch.draw(len(all_reqs) + 1, 'notif.pos'), pjrpc.Request('echo', [f'n{j}', j], None))
    b = st.client.batch
    breq = pjrpc.BatchRequest(*all_reqs)
    try:
        if via == 'send':
            outcome: Tuple[Any, ...] = ('value', st.run(lambda: b.send(breq)))
        else:
            b._requests = breq
            outcome = ('value', st.run(lambda: b.call()))
    except Exception as e:  # noqa: BLE001
        outcome = ('raise', e)
    delivered = [r['text'] for r in w.history if r['kind'] == 'wire.deliver']
    sent = st.net.sent
    sent_doc = json.loads(sent[0])
    # the reference: a delivery rejected with the identity error is retried while attempts remain
    final = 0
    for k in range(n_deliveries):
        final = k
        if k >= len(delivered):
            break
        if RC.match_batch(sent_doc, delivered[k], True)['verdict'] != 'identity':
            break
    ctx = {'fault': kinds[final], 'strict': True, 'via': via, 'client_async': client_async, 'kind': 'retried',
           'n': n, 'listed': listed, 'final_delivery': final}
    if len(sent) != final + 1 or len(delivered) != final + 1:
        w.violate('C08.retried', f'{len(sent)} sends / {len(delivered)} deliveries; the reference stops after delivery '
                  f'{final} (verdicts {[RC.match_batch(sent_doc, t, True)["verdict"] for t in delivered]})', **ctx)
        return
    if final > 0:
        w.probe('retried_after_identity_error')
    _judge_batch(w, sent_doc, delivered[final], True, outcome, reqs, via, ctx)


FAMILIES = {'match.retried': fam_retried, 'match.concurrent': fam_concurrent, 'match.batch': fam_batch, 'match.single': fam_single, 'match.reuse': fam_reuse, 'match.inline': fam_inline}
SYSTEMATIC = {'match.batch': systematic_batch, 'match.single': systematic_single}
PLAN = {
    'quick': {'match.batch': 80000, 'match.single': 32000, 'match.reuse': 16000, 'match.inline': 10000,
              'match.concurrent': 16000, 'match.retried': 16000},
    'thorough': {'match.batch': 80000, 'match.single': 30000, 'match.reuse': 30000, 'match.inline': 30000,
                 'match.concurrent': 30000, 'match.retried': 30000},
}
THOROUGH_BUDGET_S = 600
RULE = ('systematic part: every combination of (number of calls, response-fault kind, strict flag, client kind, '
        'notation) as a forced choice prefix, fault arguments and calls seeded; random part: seeded runs; distinct = '
        'distinct history digest; non-trivial = a response-leg fault was planned or the request is a batch')
