"""C01 - the server answers every request text with a well-formed JSON-RPC 2.0 response.

Invariant monitor at the server seam: every text the simulated server receives - traffic of well-behaved
generators, the same traffic through a corrupting request leg, documents composed by a hostile peer from
the per-member alphabets - must produce None or (text, codes) with a valid response document.
"""
from __future__ import annotations

import json
from typing import Any, Dict, List

from .. import faults as F
from .. import serverscn as S
from ..world import World

PROP = 'C01'
LEVEL = 'exploration'
REAL = ['pjrpc/server/dispatcher.py (Dispatcher.dispatch, AsyncDispatcher.dispatch, handlers, registry)',
        'pjrpc/common/v20.py (Request/BatchRequest.from_json, Response/BatchResponse.to_json)',
        'pjrpc/common/exceptions.py', 'pjrpc/server/validators/base.py']
STUB = ['the peer (generated / corrupted / hostile request texts)', 'event loop (SimLoop) for the async dispatcher']
ASSUMPTIONS = ['registered methods return JSON-encodable values; no user middleware / error handler raises',
               'nesting deeper than 64 levels and NaN/Infinity literals are outside the quantifier']

CHECKS = ('wellformed',)


def _cfg_ctx(cfg: Dict[str, Any], info: Dict[str, Any], family: str) -> Dict[str, Any]:
    return {'async': cfg['async'], 'max_batch_size': cfg['max_batch_size'], 'shape': info.get('shape'), 'family': family}


def fam_traffic(w: World) -> None:
    """One to three documents, one after another, to one long-lived dispatcher."""
    ch = w.ch
    n_deliveries = 1 + ch.draw(3, 'deliveries')
    infos = [S.gen_document(ch, exotic=True, tok_prefix=f'd{d}_' if d else '', reentrant=True) for d in range(n_deliveries)]
    n = max((len(i['doc']) if isinstance(i['doc'], list) else 1) for i in infos)
    cfg = S.draw_config(ch, n, middlewares=True, handlers=True)
    for d in range(n_deliveries):
        S.plan_pauses(w, cfg, n + 1, tok_prefix=f'd{d}_' if d else '')
    w.scenario = {'cfg': cfg, 'texts': [i['text'] for i in infos], 'kinds': [i['kinds'] for i in infos]}
    info = infos[0]
    w.nontrivial = n_deliveries > 1 or info['shape'] == 'batch' or bool(info['kinds'] and info['kinds'][0] not in ('ok',))
    sut = S.ServerUnderTest(w, cfg)
    for info in infos:
        if info['shape'] == 'batch' and info['kinds'] and all(k.endswith('.n') for k in info['kinds']):
            w.probe('all_notification_batch')
        S.judge_delivery(w, PROP, sut, info['text'], CHECKS, _cfg_ctx(cfg, info, 'traffic'))
        if w.violations:
            return
        if cfg['async'] and ch.flag(1, 3, 'new_event_loop'):
            sut.new_event_loop()


def fam_corrupted(w: World) -> None:
    ch = w.ch
    info = S.gen_document(ch, exotic=True, allow_junk=False)
    n = len(info['doc']) if isinstance(info['doc'], list) else 1
    cfg = S.draw_config(ch, n, middlewares=True, handlers=True)
    S.plan_pauses(w, cfg, n + 1)
    text = info['text']
    kinds = []
    for _ in range(1 + ch.draw(2, 'corrupt.n')):
        new, kind = S.corrupt_text(ch, text)
        if new != text:
            w.fault(kind)
            kinds.append(kind)
        text = new
    w.scenario = {'cfg': cfg, 'text': text if len(text) < 400 else text[:200] + f'...({len(text)} chars)', 'faults': kinds}
    sut = S.ServerUnderTest(w, cfg)
    ctx = _cfg_ctx(cfg, info, 'corrupted')
    ctx['faults'] = kinds
    if any(len(tok) > 4300 for tok in _digit_runs(text)):
        w.probe('int_literal_over_limit')
        ctx['huge_int'] = True
    if S.outside_quantifier(w, text):
        return
    S.judge_delivery(w, PROP, sut, text, CHECKS, ctx)


def _digit_runs(text: str) -> List[str]:
    runs, cur = [], []
    for c in text:
        if c.isdigit():
            cur.append(c)
        elif cur:
            runs.append(''.join(cur))
            cur = []
    if cur:
        runs.append(''.join(cur))
    return runs


def hostile_element(ch: Any, tok: str) -> Any:
    if ch.flag(1, 8, 'hostile.nonobject'):
        return ch.choice(F.NONOBJECT_ALPHABET, 'hostile.nonobject.value')
    el: Dict[str, Any] = {'jsonrpc': '2.0', 'id': ch.choice(S.ELEMENT_IDS, 'hostile.id'),
                          'method': ch.choice(['echo', 'none', 'fail_exc', 'fail_proto', 'pair', 'nosuch'], 'hostile.method'),
                          'params': ch.choice([[tok, 1], [tok], {'tok': tok}, [tok, 'value'], [tok, 2001, 'm'], []], 'hostile.params')}
    for member, alphabet in F.REQUEST_MEMBERS.items():
        if ch.flag(1, 3, 'hostile.replace'):
            F.set_member(el, member, ch.choice(alphabet, 'hostile.value'))
    if ch.flag(1, 10, 'hostile.extra'):
        el[ch.choice(['extra', 'result', 'error', 'ID', ''], 'hostile.extra.name')] = ch.choice([None, 1, 'x', [], {}], 'hostile.extra.value')
    return el


def fam_hostile(w: World) -> None:
    ch = w.ch
    shape = ch.weighted([3, 4], 'hostile.shape')
    if shape == 0:
        doc: Any = hostile_element(ch, 't0')
        n = 1
    else:
        n = 1 + ch.draw(5, 'hostile.len')
        doc = [hostile_element(ch, f't{k}') for k in range(n)]
    cfg = S.draw_config(ch, n, middlewares=True, handlers=True)
    S.plan_pauses(w, cfg, n + 1)
    text = json.dumps(doc)
    w.scenario = {'cfg': cfg, 'text': text}
    w.nontrivial = True
    w.fault('hostile_peer')
    sut = S.ServerUnderTest(w, cfg)
    S.judge_delivery(w, PROP, sut, text, CHECKS, {'async': cfg['async'], 'max_batch_size': cfg['max_batch_size'],
                                                   'shape': 'hostile', 'family': 'hostile'})


def fam_own_loader(w: World) -> None:
    """A dispatcher whose ``json_loader`` produces values the encoder does not know (floats read as ``Decimal``), serving
    requests to methods that never hand a parameter back (so the proviso "methods return JSON-encodable values" holds):
    whatever the library itself puts into an error must still be encodable."""
    import decimal
    import functools
    import json as _json
    ch = w.ch
    n = 1 + ch.draw(3, 'own_loader.n')
    els = []
    for k in range(n):
        tok = f't{k}'
        kind = ch.choice(['typed_bad', 'typed_bad', 'typed_ok', 'default_bad', 'unknown', 'nobind', 'none', 'kwonly_bad'],
                         'own_loader.kind')
        params: Any
        if kind == 'typed_bad':
            method, params = 'typed', ch.choice([[tok, 1.5], [tok, 2.5e3], {'tok': tok, 'n': 0.1}, [tok, [1.5]],
                                                 [tok, {'a': 1.25}], [tok, 1, 2.5], {'tok': tok, 'n': 1, 'label': 3.5}],
                                                'own_loader.params')
        elif kind == 'typed_ok':
            method, params = 'typed', [tok, ch.choice([1, 0, -3], 'own_loader.n_ok')]
        elif kind == 'default_bad':
            method, params = 'typed_default', ch.choice([[tok, 1.5], {'tok': tok, 'flag': 0.5}], 'own_loader.params')
        elif kind == 'unknown':
            method, params = 'nosuch', [tok, 1.5]
        elif kind == 'nobind':
            method, params = 'none', [tok, 1.5, 2.5]
        elif kind == 'kwonly_bad':
            method, params = 'kwonly', [tok, 1.5]
        else:
            method, params = 'none', [tok]
        el: Dict[str, Any] = {'jsonrpc': '2.0', 'method': method, 'params': params}
        if not ch.flag(1, 4, 'own_loader.notification'):
            el['id'] = ch.choice([1, 2, 'a', 0, 1.5], 'own_loader.id') if k == 0 else k + 10
        els.append(el)
    doc: Any = els[0] if n == 1 and ch.flag(1, 2, 'own_loader.single') else els
    text = _json.dumps(doc)
    cfg = S.draw_config(ch, n)
    S.plan_pauses(w, cfg, n + 1)
    w.scenario = {'cfg': cfg, 'text': text, 'json_loader': 'json.loads(parse_float=Decimal)'}
    w.nontrivial = True
    sut = S.ServerUnderTest(w, cfg, extra_kwargs={
        'json_loader': functools.partial(_json.loads, parse_float=decimal.Decimal)})
    outcome = sut.deliver(text)
    S.check_wellformed(w, PROP, text, outcome, dict(_cfg_ctx(cfg, {'shape': 'own_loader', 'kinds': []}, 'own_loader')))


FAMILIES = {'server.own_loader': fam_own_loader, 'server.traffic': fam_traffic, 'server.corrupted': fam_corrupted, 'server.hostile': fam_hostile}
PLAN = {
    'quick': {'server.own_loader': 12000, 'server.traffic': 42000, 'server.corrupted': 56000, 'server.hostile': 56000},
    'thorough': {'server.own_loader': 20000, 'server.traffic': 40000, 'server.corrupted': 60000, 'server.hostile': 60000},
}
THOROUGH_BUDGET_S = 600
