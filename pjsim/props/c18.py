"""C18 - HTTP integrations relay the dispatcher's verdict unchanged.

The same POST (peer-controlled Content-Type header and body bytes) goes through pjrpc's aiohttp, Flask and
Werkzeug integrations in process; header faults (charset parameter, near-miss / unrelated / missing media
type) and body faults (wire corruption, invalid UTF-8) are injected; each reply is compared with the verdict
the wrapped dispatcher returned, and the three replies with each other.
"""
from __future__ import annotations

import json
from typing import Any, Dict, List, Optional, Tuple

import pjrpc.common

from .. import http as H
from .. import serverscn as S
from ..ref import jsonrpc as R
from ..world import World

PROP = 'C18'
LEVEL = 'exploration'
REAL = ['pjrpc/server/integration/aiohttp.py', 'pjrpc/server/integration/flask.py',
        'pjrpc/server/integration/werkzeug.py', 'pjrpc/common/__init__.py (content types)',
        'pjrpc/server/dispatcher.py', 'request parsing of aiohttp (web.Request, StreamReader), Flask and Werkzeug']
STUB = ['sockets and HTTP servers (WSGI test clients; aiohttp handler awaited with a mocked request)',
        'event loop (SimLoop) for the aiohttp path']
ASSUMPTIONS = ['case variants of media types are not constrained', 'one hop, no clock: the weakest simulation content '
               'after C01; the simulator contributes header/body fault injection and the cross-integration comparison']

DOCUMENTED = list(pjrpc.common.REQUEST_CONTENT_TYPES)
PARAMS = ['', '; charset=utf-8', ';charset=UTF-8', '; charset=utf-8; boundary=x', ' ; charset=utf-8']
NEAR_MISS = ['application/jsonrpc', 'application/json-rpcx', 'application/foo+json', 'application/x-json', 'text/json',
             'application/json+rpc', 'application/jsonrequests', 'json', 'application/', 'application/json/rpc']
UNRELATED = ['text/plain', 'application/x-www-form-urlencoded', 'multipart/form-data; boundary=x', 'application/xml',
             'text/html; charset=utf-8', 'application/octet-stream']


def _header(ch: Any) -> Tuple[Optional[str], str]:
    cls = ['documented', 'documented_param', 'near_miss', 'unrelated', 'missing'][ch.weighted([4, 4, 2, 2, 1], 'hdr.class')]
    if cls == 'documented':
        return ch.choice(DOCUMENTED, 'hdr.type'), cls
    if cls == 'documented_param':
        return ch.choice(DOCUMENTED, 'hdr.type') + ch.choice(PARAMS[1:], 'hdr.param'), cls
    if cls == 'near_miss':
        return ch.choice(NEAR_MISS, 'hdr.near') + ch.choice(['', '; charset=utf-8'], 'hdr.param'), cls
    if cls == 'unrelated':
        return ch.choice(UNRELATED, 'hdr.unrelated'), cls
    return None, cls


def _body(ch: Any) -> Tuple[bytes, str, Any]:
    info = S.gen_document(ch, max_len=3, allow_junk=True)
    text = info['text']
    kind = 'valid'
    if ch.flag(1, 5, 'body.corrupt') and info['shape'] in ('single', 'batch'):
        text, _ = S.corrupt_text(ch, text)
        kind = 'corrupted'
    if ch.flag(1, 6, 'body.padded'):
        # characters at the edges of the body: JSON white space, other Unicode white space / controls, a byte order mark
        pad = ch.choice([' ', '\n', '\r\n\t ', '\ufeff', '\x0b', '\x0c', '\u00a0', '\u2028', '\x1c', '\u0085'], 'body.pad')
        where = ch.choice(['front', 'back', 'both'], 'body.pad.where')
        text = (pad if where != 'back' else '') + text + (pad if where != 'front' else '')
        kind = 'padded'
    if ch.flag(1, 12, 'body.blank'):
        text, kind = ch.choice(['', ' ', '\n', '\ufeff', ' \r\n\t '], 'body.blank.text'), 'blank'
    body = text.encode('utf-8')
    if ch.flag(1, 6, 'body.non_utf8'):
        pos = ch.draw(len(body) + 1, 'body.pos')
        body = body[:pos] + ch.choice([b'\xff', b'\xfe\xff', b'\xc3', b'\xed\xa0\x80', b'\x80'], 'body.bad') + body[pos:]
        kind = 'non_utf8'
    return body, kind, info


def _is_utf8(b: bytes) -> bool:
    try:
        b.decode('utf-8')
        return True
    except UnicodeDecodeError:
        return False


def fam_relay(w: World) -> None:
    ch = w.ch
    status_fn = ch.choice(sorted(H.STATUS_FUNCTIONS), 'status_fn')
    path = ch.choice(['/api', '/rpc/v2', '/x/'], 'path')
    sub = ch.choice([None, '/sub', '/sub/'], 'sub')
    sub_blueprint = ch.flag(1, 3, 'flask.sub_blueprint')
    max_batch = ch.choice([None, None, 1, 3], 'max_batch')
    flavour = ch.choice(['async', 'mixed', 'sync'], 'aio.flavour')
    n_posts = 1 + ch.draw(3, 'posts')
    bp_prefix = ch.choice([None, None, '/mounted'], 'flask.blueprint_prefix')
    earlier_app = ch.flag(1, 3, 'flask.earlier_app')
    aio_mounted = ch.choice([None, None, '/myapp'], 'aiohttp.mounted')
    S.plan_pauses(w, {'async': True, 'middlewares': [], 'handlers': {}}, 5)
    w.scenario = {'status_fn': status_fn, 'path': path, 'sub': sub, 'max_batch_size': max_batch, 'posts': [],
                  'flask_blueprint_prefix': bp_prefix, 'flask_earlier_app': earlier_app,
                  'flask_sub_blueprint': sub_blueprint, 'aiohttp_mounted': aio_mounted}
    hops: Dict[str, Any] = {}
    for name in ('aiohttp', 'flask', 'werkzeug'):
        kwargs = {'max_batch_size': max_batch}
        if name == 'aiohttp':
            hops[name] = H.AiohttpHop(w, path, sub, status_fn, kwargs, flavour, mounted=aio_mounted)
        elif name == 'flask':
            hops[name] = H.FlaskHop(w, path, sub, status_fn, kwargs, blueprint_prefix=bp_prefix, earlier_app=earlier_app,
                                    sub_blueprint=sub_blueprint)
        else:
            hops[name] = H.HOPS[name](w, path, sub, status_fn, kwargs)
    for k in range(n_posts):
        ctype, hdr_class = _header(ch)
        body, body_kind, info = _body(ch)
        use_sub = bool(sub) and bool(ch.draw(2, 'use_sub'))
        if S.outside_quantifier(w, body.decode('utf-8', 'replace')):
            continue
        w.scenario['posts'].append({'content_type': ctype, 'header_class': hdr_class, 'body_kind': body_kind,
                                    'body': body[:200].decode('utf-8', 'replace'), 'use_sub': use_sub})
        if hdr_class != 'documented' or body_kind != 'valid' or k > 0:
            w.nontrivial = True
        if hdr_class != 'documented':
            w.fault('hdr_' + hdr_class)
        if body_kind != 'valid':
            w.fault('body_' + body_kind)
        pieces = None
        if len(body) >= 2 and ch.flag(1, 3, 'net.pieces'):
            # the body reaches the aiohttp server in 2-3 TCP segments, the later ones while the handler is running
            cuts = sorted({1 + ch.draw(len(body) - 1, 'net.cut') for _ in range(1 + ch.draw(2, 'net.ncuts'))})
            sizes = [b - a for a, b in zip([0] + cuts, cuts + [len(body)])]
            pieces = [(ch.choice([0.0, 0.125, 1.0], 'net.gap'), n) for n in sizes]
            w.scenario['posts'][-1]['pieces'] = pieces
        _one_post(w, hops, k, ctype, hdr_class, body, body_kind, status_fn, path, sub, use_sub, pieces)
        if w.violations:
            return


def _one_post(w: World, hops: Dict[str, Any], k: int, ctype: Optional[str], hdr_class: str, body: bytes, body_kind: str,
              status_fn: str, path: str, sub: Optional[str], use_sub: bool,
              pieces: Optional[List[Tuple[float, int]]] = None) -> None:
    mt = ctype.split(';')[0].strip() if ctype is not None else None
    documented = mt in DOCUMENTED
    results: Dict[str, H.HopResult] = {}
    for name in ('aiohttp', 'flask', 'werkzeug'):
        hop = hops[name]
        url = path.rstrip('/') + (sub.rstrip('/') if use_sub and name != 'werkzeug' else '')
        before = len(w.history)
        res = hop.post(url or '/', body, ctype, pieces) if name == 'aiohttp' else hop.post(url or '/', body, ctype)
        results[name] = res
        execs = [r for r in w.history[before:] if r['kind'] == 'method.enter']
        ctx = {'integration': name, 'header_class': hdr_class, 'media_type': mt, 'body_kind': body_kind,
               'status_fn': status_fn if hop.has_status_fn else 'n/a', 'post_index': k}
        crashed = [v for _, v in res.dispatched if isinstance(v, tuple) and v and v[0] == '$raised']
        if crashed:
            e = crashed[0][1]
            peer = results.get('aiohttp')
            peer_codes = list(peer.dispatched[0][1][1]) if peer and peer.dispatched and isinstance(
                peer.dispatched[0][1], tuple) and peer.dispatched[0][1][0] != '$raised' else None
            w.violate('C18.dispatch_raised', f'{name}: the dispatcher configured by the integration raised '
                      f'{type(e).__name__}: {str(e)[:80]} (HTTP {res.status}); the same request through aiohttp has '
                      f'error codes {peer_codes}', exc=type(e).__name__,
                      invalid_params_reply=bool(peer_codes and -32602 in peer_codes), **ctx)
            res.raised = e   # excluded from the comparisons below
            continue
        if getattr(res, 'replies_written', None) == 0:
            w.violate('C18.no_http_reply', f'{name}: the handler returned a response object but no HTTP reply was written '
                      f'for this request (Content-Type {ctype!r}, body kind {body_kind})', **ctx)
            continue
        if res.raised is not None:
            w.violate('C18.raised', f'{name}: the integration raised {type(res.raised).__name__} instead of answering '
                      f'(Content-Type {ctype!r})', exc=type(res.raised).__name__, **ctx)
            continue
        if not documented:
            if res.status != 415:
                w.violate('C18.gate', f'{name}: Content-Type {ctype!r} is not a documented JSON-RPC type but was '
                          f'answered {res.status} instead of 415', status=res.status, **ctx)
            if res.dispatched or execs:
                w.violate('C18.gate_executed', f'{name}: a request with Content-Type {ctype!r} reached the dispatcher', **ctx)
            continue
        if res.status == 415:
            w.violate('C18.refused', f'{name}: documented media type {ctype!r} was refused with 415', **ctx)
            continue
        if body_kind == 'non_utf8' and not _is_utf8(body):
            continue  # judged by the cross-integration comparison below
        if len(res.dispatched) != 1:
            w.violate('C18.relay', f'{name}: the dispatcher was called {len(res.dispatched)} times for one POST', **ctx)
            continue
        text, verdict = res.dispatched[0]
        want_endpoint = 'sub' if (use_sub and name != 'werkzeug') else 'main'
        if res.endpoints[:1] != [want_endpoint]:
            w.violate('C18.endpoint', f'{name}: the POST to {url!r} was served by the dispatcher of endpoint '
                      f'{res.endpoints[:1]} instead of {want_endpoint!r}', **ctx)
        if text != body.decode('utf-8'):
            w.violate('C18.relay', f'{name}: the dispatcher received {text[:80]!r}, the body was {body[:80]!r}', **ctx)
        if verdict is None:
            if res.status != 200 or res.body not in (b'',):
                w.violate('C18.no_reply', f'{name}: the dispatcher returned nothing but the reply is {res.status} '
                          f'{res.body[:60]!r}', **ctx)
            continue
        vtext, codes = verdict
        want_status = H.STATUS_FUNCTIONS[status_fn](codes) if hop.has_status_fn else 200
        if res.status != want_status:
            w.violate('C18.status', f'{name}: status {res.status} instead of {want_status} (status function '
                      f'{status_fn}, codes {codes})', **ctx)
        if res.media_type() != 'application/json':
            w.violate('C18.content_type', f'{name}: reply Content-Type {res.ctype!r} instead of application/json', **ctx)
        ok_a, got = R.strict_loads(res.body.decode('utf-8', 'replace'))
        ok_b, want = R.strict_loads(vtext)
        if not ok_a or not ok_b or not R.json_equal(got, want):
            w.violate('C18.body', f'{name}: reply body {res.body[:120]!r} is not the dispatcher\'s response document '
                      f'{vtext[:120]!r}', **ctx)
    # the same request gets equivalent replies from every integration
    views = {}
    for name, res in results.items():
        if res.raised is not None:
            continue
        status = res.status
        if name == 'werkzeug' and status_fn != 'default' or any(r.raised for r in results.values()):
            status = None if status not in (415, 400) else status   # werkzeug offers no status function
        doc = None
        if res.media_type() == 'application/json' and res.body:
            ok, doc = R.strict_loads(res.body.decode('utf-8', 'replace'))
        views[name] = (status, _strip_free_text(doc))
    names = sorted(views)
    for a in range(len(names)):
        for b in range(a + 1, len(names)):
            va, vb = views[names[a]], views[names[b]]
            sa, sb = va[0], vb[0]
            if (sa is not None and sb is not None and sa != sb) or not R.json_equal(va[1], vb[1]):
                w.violate('C18.equivalent', f'{names[a]} answered {va} and {names[b]} answered {vb} to the same POST '
                          f'(Content-Type {ctype!r}, body kind {body_kind})', pair=f'{names[a]}/{names[b]}',
                          header_class=hdr_class, body_kind=body_kind, media_type=mt)
                return


def _strip_free_text(doc: Any) -> Any:
    """Library-generated error data (free text: parser messages differ between json and flask.json) is not compared."""
    if isinstance(doc, list):
        return [_strip_free_text(d) for d in doc]
    if isinstance(doc, dict) and isinstance(doc.get('error'), dict) and doc['error'].get('code') in (
            R.PARSE_ERROR, R.INVALID_REQUEST, R.METHOD_NOT_FOUND, R.INVALID_PARAMS, R.INTERNAL_ERROR):
        e = dict(doc['error'])
        e.pop('data', None)
        return dict(doc, error=e)
    return doc


FAMILIES = {'http.relay': fam_relay}
PLAN = {
    'quick': {'http.relay': 30000},
    'thorough': {'http.relay': 60000},
}
CHUNK = 40
THOROUGH_BUDGET_S = 600
