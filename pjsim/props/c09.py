"""C09 - retries are bounded, follow the configured backoff, and return the last outcome.

Scripted attempt outcomes under the virtual clock: the real retry loops (pjrpc.client.retry, wrapped by the
real client) run against a SimNet whose k-th attempt fails or succeeds as the scenario says; sleeping is
virtual (time seam), so every pause is an exact, comparable number.  Oracle: ref_retry (closed formulas).
"""
from __future__ import annotations

import asyncio
import json
from typing import Any, Dict, List, Optional, Tuple

import pjrpc
from pjrpc.common import UNSET
from pjrpc.common.exceptions import DeserializationError, IdentityError, JsonRpcError

from .. import clientscn as CS
from ..net import SimAbort, SimConnError, SimConnReset, SimOther, SimTimeout
from ..ref import jsonrpc as R
from ..ref import retry as ref_retry
from ..world import World

PROP = 'C09'
LEVEL = 'exploration'
REAL = ['pjrpc/client/retry.py (Backoff families, RetryStrategy, retry, retry_async)',
        'pjrpc/client/client.py (retried/traced wrappers, _send, send, call, notify, Batch/AsyncBatch)',
        'pjrpc/common/v20.py', 'pjrpc/server/dispatcher.py (serving the successful / failing attempts)']
STUB = ['time.sleep / asyncio.sleep as seen by pjrpc.client.retry and every clock of the time module (virtual clock)',
        'transport (SimNet at the _request seam: scripted per-attempt outcomes and latencies)',
        'event loop (SimLoop, virtual time)']
ASSUMPTIONS = ['all durations are dyadic rationals of small magnitude, so virtual-time arithmetic is exact',
               'jitter callables are constant, so no pairing of jitter calls with delays is assumed',
               'one caller per run in the single / history families, so nothing else moves the virtual clock between that '
               'caller\'s records; in retry.concurrent.async the callers are tasks of one event loop and every record is '
               'attributed to its caller (request token / task)']

OUTCOME_EXC = {'exc_conn': SimConnError, 'exc_reset': SimConnReset, 'exc_timeout': SimTimeout,
               'exc_other': SimOther, 'lost_conn': SimConnError, 'abort': SimAbort,
               'exc_cancelled': asyncio.CancelledError, 'exc_stopiter': StopIteration}
NOTIF_OUTCOMES = ('ok', 'exc_conn', 'exc_reset', 'exc_timeout', 'exc_other', 'lost_conn', 'abort', 'exc_cancelled',
                  'exc_stopiter')


def retryable(scn: Dict[str, Any], strategy: Optional[Dict[str, Any]], outcome: str) -> bool:
    if not strategy:
        return False
    batch = scn['kind'].startswith('batch')
    codes = strategy['codes'] or []
    listed = tuple(CS.EXC_CLASSES[n] for n in (strategy['exceptions'] or []))
    if outcome in OUTCOME_EXC:
        cls = OUTCOME_EXC[outcome]
        return issubclass(cls, Exception) and bool(listed) and issubclass(cls, listed)
    if scn['kind'] in ('notify', 'batch_notify'):
        return False
    if outcome == 'garbage':
        return bool(listed) and issubclass(json.JSONDecodeError, listed)
    if outcome == 'invalid':
        return bool(listed) and issubclass(DeserializationError, listed)
    if outcome == 'id_mismatch':
        return bool(scn['strict'] and listed and issubclass(IdentityError, listed))
    if batch:
        if outcome == 'batch_err_listed':
            return CS.LISTED_CODE in codes
        if outcome == 'batch_err_unlisted':
            return CS.UNLISTED_CODE in codes
        return False
    if outcome == 'err_listed':
        return CS.LISTED_CODE in codes
    if outcome == 'err_unlisted':
        return CS.UNLISTED_CODE in codes
    return False


def normalise_script(scn: Dict[str, Any]) -> None:
    """Keep scripts inside what the statement fixes (no response-level outcomes for notifications)."""
    if scn['kind'] in ('notify', 'batch_notify'):
        for step in scn['script']:
            if step['outcome'] not in NOTIF_OUTCOMES:
                step['outcome'] = 'ok'
    if not scn['kind'].startswith('batch'):
        for step in scn['script']:
            if step['outcome'].startswith('batch_err'):
                step['outcome'] = 'err_listed'


def judge(w: World, scn: Dict[str, Any], obs: CS.Obs, client_async: bool, timing: bool = True) -> Dict[str, Any]:
    """Evaluate the C09 oracle on one execution; returns the schedule-invariant summary."""
    ctx = {'kind': scn['kind'], 'via': scn['via'], 'placement': scn['placement'], 'client_async': client_async}
    strategy = CS.effective_strategy(scn)
    outcomes = [s['outcome'] for s in scn['script']]
    rscript = [retryable(scn, strategy, o) for o in outcomes]
    exp_sends, exp_pauses = ref_retry.expected(strategy, rscript)
    recs = obs.records
    sends = [r for r in recs if r['kind'] == 'wire.send']
    ends = {r['attempt']: r for r in recs if r['kind'] in ('wire.deliver', 'wire.raise')}
    sleeps = [r for r in recs if r['kind'] == 'sleep']
    if exp_sends >= 2:
        w.nontrivial = True
        w.probe(f'retries.{min(exp_sends - 1, 4)}')
    n_attempts = strategy['backoff']['attempts'] if strategy else 0
    if exp_sends == n_attempts + 1 and rscript[exp_sends - 1]:
        w.probe('retry_exhausted_still_failing')
    if len(sends) > n_attempts + 1:
        w.violate('C09.bound', f'{len(sends)} sends with a strategy of {n_attempts} attempts (at most '
                  f'{n_attempts + 1} allowed)', **ctx)
    if len(sends) != exp_sends:
        w.violate('C09.sends', f'{len(sends)} sends, expected {exp_sends} (outcomes {outcomes[:max(len(sends), exp_sends)]}, '
                  f'retryable {rscript[:max(len(sends), exp_sends)]})', outcome_last=outcomes[min(len(sends), len(outcomes)) - 1],
                  **ctx)
        return {'sends': len(sends)}
    got_sleeps = [r['delay'] for r in sleeps]
    if strategy and strategy['backoff'].get('jitter_seq'):
        # non-constant jitter: every pause must carry a value of its own from the jitter callable
        w.probe('jitter_sequence')
        cap = strategy['backoff'].get('max_value')
        used: List[float] = []
        if len(got_sleeps) != len(exp_pauses):
            w.violate('C09.pause', f'{len(got_sleeps)} sleeps {got_sleeps}, expected {len(exp_pauses)}', **ctx)
        for k, (got, base) in enumerate(zip(got_sleeps, exp_pauses)):
            if cap is not None and got == cap:
                continue
            comp = got - base
            if comp <= 0 or (comp / 0.25) != int(comp / 0.25):
                w.violate('C09.pause', f'pause {k} is {got}: base delay {base} plus {comp}, which the jitter callable never '
                          f'returned', jitter='sequence', **ctx)
                break
            if comp in used:
                w.violate('C09.pause', f'pauses {got_sleeps}: the jitter value {comp} was used for more than one pause '
                          f'(each delay gets its own jitter)', jitter='sequence', **ctx)
                break
            used.append(comp)
        exp_pauses = list(got_sleeps)
    if got_sleeps != exp_pauses:
        w.violate('C09.pause', f'sleep arguments {got_sleeps}, expected backoff delays {exp_pauses}', **ctx)
    elif timing:
        for k in range(len(sends) - 1):
            end = ends.get(k)
            if end is None:
                w.violate('C09.pause', f'attempt {k} has no completion record', **ctx)
                continue
            gap = sends[k + 1]['vt'] - end['vt']
            if gap != max(0.0, exp_pauses[k]):
                w.violate('C09.pause', f'attempt {k + 1} started {gap} s after attempt {k} ended, expected '
                          f'{exp_pauses[k]}', **ctx)
    inv = next(r for r in recs if r['kind'] == 'caller.invoke')
    ret = next(r for r in recs if r['kind'] == 'caller.return')
    if timing and sends and sends[0]['vt'] != inv['vt']:
        w.violate('C09.pause', f'{sends[0]["vt"] - inv["vt"]} s passed before the first send', **ctx)
    last = ends.get(len(sends) - 1)
    if timing and last is not None and ret['vt'] != last['vt']:
        w.violate('C09.pause', f'{ret["vt"] - last["vt"]} s passed after the last attempt completed', **ctx)
    blocking = [r for r in sleeps if r.get('mode') == 'blocking']
    if client_async and blocking:
        w.probe('async_client_blocking_sleep')
    # --- the caller receives the last attempt's outcome, unchanged ----------------------------------------
    final = outcomes[exp_sends - 1] if exp_sends - 1 < len(outcomes) else 'ok'
    _check_final(w, scn, obs, final, last, ctx)
    return {'sends': len(sends), 'pauses': got_sleeps, 'final': final}


def judge_cancelled(w: World, scn: Dict[str, Any], obs: CS.Obs) -> Dict[str, Any]:
    """The caller task was cancelled at a seeded virtual instant while the request was in progress.  What the retry loop
    did up to that instant must be a prefix of the uncancelled behaviour, and the cancellation ends it: no send and no
    pause after the cancellation, and the caller is released at the instant it was cancelled."""
    import asyncio
    ctx = {'kind': scn['kind'], 'via': scn['via'], 'placement': scn['placement'], 'client_async': True,
           'cancelled': True}
    strategy = CS.effective_strategy(scn)
    outcomes = [s['outcome'] for s in scn['script']]
    rscript = [retryable(scn, strategy, o) for o in outcomes]
    exp_sends, exp_pauses = ref_retry.expected(strategy, rscript)
    recs = obs.records
    t_cancel = obs.cancelled_at
    cancel_seq = next(r['seq'] for r in recs if r['kind'] == 'fault' and r.get('fault') == 'cancel')
    sends = [r for r in recs if r['kind'] == 'wire.send']
    ends = {r['attempt']: r for r in recs if r['kind'] in ('wire.deliver', 'wire.raise')}
    sleeps = [r for r in recs if r['kind'] == 'sleep']
    ret = next(r for r in recs if r['kind'] == 'caller.return')
    w.nontrivial = True
    w.probe('cancelled.after_%d_sends' % min(len(sends), 4))
    late = [r for r in sends + sleeps if r['seq'] > cancel_seq]
    if late:
        w.violate('C09.cancel', f'after the caller was cancelled at t={t_cancel} the retry loop still did '
                  f'{[(r["kind"], r.get("delay")) for r in late]}', **ctx)
        return {'cancelled': True}
    if len(sends) > exp_sends:
        w.violate('C09.bound', f'{len(sends)} sends before the cancellation, the uncancelled request makes {exp_sends}', **ctx)
        return {'cancelled': True}
    got_sleeps = [r['delay'] for r in sleeps]
    jitter_seq = bool(strategy and strategy['backoff'].get('jitter_seq'))
    if not jitter_seq and got_sleeps != exp_pauses[:len(got_sleeps)]:
        w.violate('C09.pause', f'sleep arguments {got_sleeps} before the cancellation, expected a prefix of {exp_pauses}',
                  **ctx)
    elif not jitter_seq:
        for k in range(len(sends) - 1):
            end = ends.get(k)
            if end is not None and sends[k + 1]['vt'] - end['vt'] != max(0.0, exp_pauses[k]):
                w.violate('C09.pause', f'attempt {k + 1} started {sends[k + 1]["vt"] - end["vt"]} s after attempt {k} ended, '
                          f'expected {exp_pauses[k]}', **ctx)
    o = obs.outcome
    if o[0] != 'raise' or not isinstance(o[1], asyncio.CancelledError):
        # legal only if the request had already completed at that very instant
        last = ends.get(exp_sends - 1)
        if len(sends) != exp_sends or last is None or last['vt'] != t_cancel:
            w.violate('C09.cancel', f'the caller was cancelled at t={t_cancel} during the request but received {o[0]} '
                      f'{o[1]!r}', **ctx)
    elif ret['vt'] != t_cancel:
        w.violate('C09.cancel', f'the caller was cancelled at t={t_cancel} but released only at t={ret["vt"]}', **ctx)
    return {'cancelled': True, 'sends': len(sends), 'pauses': got_sleeps}


def _check_final(w: World, scn: Dict[str, Any], obs: CS.Obs, final: str, last: Optional[Dict[str, Any]],
                 ctx: Dict[str, Any]) -> None:
    o = obs.outcome
    ctx = dict(ctx, final=final)
    if final in OUTCOME_EXC:
        raised = obs.net.raised
        if o[0] != 'raise':
            w.violate('C09.outcome', f'last attempt raised {OUTCOME_EXC[final].__name__} but the caller got a value '
                      f'{o[1]!r}', **ctx)
        elif not raised or o[1] is not raised[-1]:
            w.violate('C09.outcome', f'the caller got {type(o[1]).__name__} {o[1]!r}, not the exception object the '
                      f'transport raised in the last attempt', exc=type(o[1]).__name__, **ctx)
        return
    notif = scn['kind'] in ('notify', 'batch_notify')
    if notif:
        if o[0] != 'value' or o[1] is not None:
            w.violate('C09.notification', f'a delivered notification must return None, got {o[0]} {o[1]!r}',
                      exc=type(o[1]).__name__ if o[0] == 'raise' else None, **ctx)
        return
    if final == 'garbage':
        if o[0] != 'raise' or not isinstance(o[1], ValueError):
            w.violate('C09.outcome', f'undecodable last reply: expected a decoding error, got {o!r}', **ctx)
        return
    if final == 'invalid':
        if o[0] != 'raise' or not isinstance(o[1], DeserializationError):
            w.violate('C09.outcome', f'invalid last reply: expected DeserializationError, got {o!r}', **ctx)
        return
    if final == 'id_mismatch' and scn['strict']:
        if o[0] != 'raise' or not isinstance(o[1], IdentityError):
            w.violate('C09.outcome', f'id mismatch in strict mode: expected IdentityError, got {o!r}', **ctx)
        return
    if last is None or last['kind'] != 'wire.deliver' or last.get('text') is None:
        w.violate('C09.outcome', 'no delivered reply recorded for the last attempt', **ctx)
        return
    doc = json.loads(last['text'])
    if o[0] == 'raise' and not isinstance(o[1], JsonRpcError):
        w.violate('C09.outcome', f'the caller got {type(o[1]).__name__}: {o[1]} instead of the last reply '
                  f'{last["text"][:100]}', exc=type(o[1]).__name__, **ctx)
        return
    if scn['via'] == 'send':
        if o[0] != 'value':
            w.violate('C09.outcome', f'send raised {o[1]!r} instead of returning the last response', **ctx)
            return
        got = CS._safe_json(o[1])
        if not R.same_document(got, doc):
            w.violate('C09.outcome', f'send returned {json.dumps(got)[:120]}, the last reply was {last["text"][:120]}',
                      **ctx)
        return
    # via call: results, or the (first) error, of the last reply
    objs = doc if isinstance(doc, list) else [doc]
    first_err = next((x for x in objs if isinstance(x, dict) and 'error' in x), None)
    if first_err is not None:
        err = first_err['error']
        if o[0] != 'raise' or o[1].code != err['code'] or o[1].message != err['message']:
            w.violate('C09.outcome', f'call outcome {o!r} does not carry the last reply\'s error {err}', **ctx)
        return
    want = [x['result'] for x in objs]
    got_v = list(o[1]) if isinstance(o[1], tuple) else [o[1]]
    if final == 'id_mismatch':
        # non-strict mode accepted a reply with a foreign id: which position it takes is an open zone (F.2)
        want, got_v = sorted(want, key=repr), sorted(got_v, key=repr)
    if o[0] != 'value' or not R.json_equal(got_v, want):
        w.violate('C09.outcome', f'call returned {o[1]!r}, the last reply carries {want!r}', **ctx)


def _targeted_cancel(w: World, scn: Dict[str, Any]) -> float:
    """A cancellation instant placed inside the request's own timeline: in the middle / at the end of an attempt or in
    the middle / at the end of a pause (a uniformly random instant mostly lands in the first attempt or after the end)."""
    strategy = CS.effective_strategy(scn)
    outcomes = [s['outcome'] for s in scn['script']]
    exp_sends, exp_pauses = ref_retry.expected(strategy, [retryable(scn, strategy, o) for o in outcomes])
    t, cands = 0.0, []
    for k in range(exp_sends):
        step = scn['script'][k] if k < len(scn['script']) else {'pre': 0.0, 'post': 0.0, 'outcome': 'ok'}
        before = step['outcome'] in ('exc_conn', 'exc_reset', 'exc_timeout', 'exc_other', 'abort', 'exc_cancelled',
                                     'exc_stopiter')
        dur = step['pre'] + (0.0 if before else step['post'])
        cands += [t + dur / 2, t + dur]
        t += dur
        if k < len(exp_pauses):
            cands += [t + max(0.0, exp_pauses[k]) / 2, t + max(0.0, exp_pauses[k])]
            t += max(0.0, exp_pauses[k])
    # later instants first: they are the ones a blind draw rarely reaches
    cands = sorted(set(cands), reverse=True)
    return cands[w.ch.draw(len(cands), 'cancel.target')]


def _family(client_async: bool):
    def fam(w: World) -> None:
        scn = CS.draw_scenario(w.ch, cancel=client_async, max_tracers=1)
        normalise_script(scn)
        if scn['cancel_at'] is not None and w.ch.flag(2, 3, 'cancel.targeted'):
            scn['cancel_at'] = _targeted_cancel(w, scn)
        w.scenario = dict(scn, client_async=client_async)
        for key in ('client_strategy', 'request_strategy'):
            if isinstance(scn[key], dict):
                for kind in ('codes', 'exceptions'):
                    w.faults_cfg[f'strategy.{kind}.{"none" if scn[key][kind] is None else len(scn[key][kind])}'] += 1
        obs = CS.run_scenario(w, scn, client_async, allow_stopiter=True)
        if obs.cancelled_at is not None:
            judge_cancelled(w, scn, obs)
        else:
            judge(w, scn, obs, client_async)
    return fam


def _history_family(client_async: bool):
    def fam(w: World) -> None:
        """A long-lived client: several requests, one after another, on the same client with one client-wide strategy."""
        ch = w.ch
        n_req = 2 + ch.draw(3, 'history.n')
        first = CS.draw_scenario(ch, cancel=False, max_tracers=1)
        first['placement'], first['request_strategy'] = 'client', 'unset'
        if first['client_strategy'] is None:
            first['client_strategy'] = CS.draw_strategy(ch)
        scns = [first]
        for _ in range(n_req - 1):
            nxt = CS.draw_scenario(ch, cancel=False, max_tracers=1)
            for key in ('client_strategy', 'strict', 'server_async', 'tracers'):
                nxt[key] = first[key]
            nxt['placement'], nxt['request_strategy'] = 'client', 'unset'
            n = first['client_strategy']['backoff']['attempts']
            nxt['script'] = (nxt['script'] + nxt['script'] + nxt['script'])[:n + 2]
            scns.append(nxt)
        first['script'] = (first['script'] * 3)[:first['client_strategy']['backoff']['attempts'] + 2]
        for scn in scns:
            normalise_script(scn)
        w.scenario = {'client_async': client_async, 'requests': scns}
        w.nontrivial = True
        stack = None
        for r, scn in enumerate(scns):
            obs = CS.run_scenario(w, scn, client_async, reuse=stack, tok_prefix=f'r{r}f')
            stack = obs.stack
            before = len(w.violations)
            judge(w, scn, obs, client_async)
            if len(w.violations) > before:
                for v in w.violations[before:]:
                    v.ctx['request_index'] = r
                return
        w.probe('history.requests_%d' % len(scns))
    return fam


def fam_concurrent_async(w: World) -> None:
    """Two or three callers use ONE asynchronous client (one client-wide strategy) at the same time: every caller's
    request has its own per-attempt outcome script (the transport tells the requests apart by their token), so the
    retry loops of different requests interleave on the virtual clock.  Each caller is judged on its own records: its
    number of sends, its sleep arguments, the gaps between its attempts, and the outcome it received."""
    import asyncio
    from types import SimpleNamespace
    from ..stack import Stack
    ch = w.ch
    n_callers = 2 + ch.draw(2, 'concurrent.n')
    strategy = CS.draw_strategy(ch)
    strategy['backoff']['jitter_seq'] = False      # a sequence shared by interleaved callers would be an open zone
    if strategy['backoff']['attempts'] == 0:
        strategy['backoff']['attempts'] = 2
    n = strategy['backoff']['attempts']
    strict = not ch.flag(1, 5, 'client.nonstrict')
    server_async = bool(ch.draw(2, 'server.async'))
    scns = []
    for k in range(n_callers):
        scn = CS.draw_scenario(ch, cancel=False, max_tracers=0)
        # the client-wide strategy is shared; a caller may still pass a strategy of its own (or None) with its request
        if scn['placement'] in ('none', 'client'):
            scn['placement'], scn['request_strategy'] = 'client', 'unset'
        elif scn['placement'] == 'request':
            scn['placement'] = 'replaced'
        if isinstance(scn['request_strategy'], dict):
            scn['request_strategy']['backoff']['jitter_seq'] = False
        scn.update(client_strategy=strategy, strict=strict, server_async=server_async, tracers=0)
        eff = CS.effective_strategy(scn)
        scn['script'] = (scn['script'] * 4)[:(eff['backoff']['attempts'] if eff else 0) + 2]
        w.probe('concurrent.placement.' + scn['placement'])
        scn['start'] = ch.choice([0.0, 0.0, 0.25, 1.0, 0.5], 'concurrent.start')
        for step in scn['script']:
            if step['outcome'] == 'exc_stopiter':
                step['outcome'] = 'exc_other'      # an asynchronous transport cannot raise StopIteration to its caller
        normalise_script(scn)
        scns.append(scn)
    w.scenario = {'client_async': True, 'concurrent': True, 'callers': scns}
    w.nontrivial = True
    st = Stack(w, True, server_async, None,
               client_kwargs={'strict': strict, 'tracers': [], 'retry_strategy': CS.build_strategy(strategy)})
    st.service.add_flaky(st.net.name)
    st.dispatcher.add_methods(st.service.registry(['flaky']))
    obss: List[CS.Obs] = []
    ops = []
    for k, scn in enumerate(scns):
        toks = [f'q{k}e{j}' for j in range(scn['n_elems'])]
        st.net.keyed_scripts[toks[0]] = CS._net_script(scn)
        w.plan[('flaky', toks[0])] = CS._flaky_plan(scn)
        for t in toks[1:]:
            w.plan[('flaky', t)] = ['ok'] * len(scn['script'])
        obs = CS.Obs()
        obs.stack, obs.tok = st, toks[0]
        obss.append(obs)
        ops.append(CS.make_op(st, scn, toks, obs))
    for reset in CS._JITTER_RESETS:
        reset()

    async def one(k: int) -> None:
        scn, obs = scns[k], obss[k]
        asyncio.current_task().pjsim_caller = k     # type: ignore[union-attr]
        await asyncio.sleep(scn['start'])
        w.rec('client', 'caller.invoke', req_kind=scn['kind'], via=scn['via'], caller=k)
        try:
            if scn['in_except']:
                try:
                    raise CS.CallerTrouble('the caller is handling this while it makes the call')
                except CS.CallerTrouble:
                    value = await ops[k]()
            else:
                value = await ops[k]()
            obs.outcome = ('value', value)
            w.rec('client', 'caller.return', outcome='value', caller=k)
        except BaseException as e:  # noqa: BLE001
            if isinstance(e, (KeyboardInterrupt, SystemExit)):
                raise
            # nobody cancels a caller in this family: a CancelledError here is the one the transport raised
            obs.outcome = ('raise', e)
            w.rec('client', 'caller.return', outcome='raise', exc=type(e).__name__, oid=w.ordinal(e), caller=k)

    async def main() -> None:
        await asyncio.gather(*(one(k) for k in range(n_callers)))

    assert st.loop is not None
    st.loop.run_until_complete(main())
    # did the retry loops of two callers actually overlap?
    spans = []
    for k in range(n_callers):
        mine = [r['seq'] for r in w.history if r.get('caller') == k]
        if len(mine) == 2:
            spans.append((mine[0], mine[1]))
    if any(a[0] < b[0] < a[1] or b[0] < a[0] < b[1] for i, a in enumerate(spans) for b in spans[i + 1:]):
        w.probe('callers_overlapped')
    summary = []
    for k, (scn, obs) in enumerate(zip(scns, obss)):
        if not obs.outcome:
            w.violate('C09.outcome', f'caller {k} never returned', caller=k)
            return
        tok = obs.tok
        obs.records = [r for r in w.history
                       if (r['kind'].startswith('wire.') and r.get('key') == tok)
                       or (r['kind'] == 'sleep' and r.get('task') == k)
                       or (r['kind'].startswith('caller.') and r.get('caller') == k)]
        foreign_sleeps = [r for r in w.history if r['kind'] == 'sleep' and r.get('task') is None]
        if foreign_sleeps:
            w.violate('C09.pause', f'{len(foreign_sleeps)} sleeps happened outside any caller\'s task', caller=k)
            return
        obs.net = SimpleNamespace(raised=st.net.raised_keyed.get(tok, []))
        before = len(w.violations)
        summary.append(judge(w, scn, obs, True))
        if len(w.violations) > before:
            for v in w.violations[before:]:
                v.ctx['caller'] = k
                v.ctx['concurrent'] = True
            return
    w.sig_parts = summary


def fam_concurrent_threads(w: World) -> None:
    """Two or three caller threads share ONE synchronous client (one client-wide strategy, optional per-request
    strategies); the baton scheduler interleaves them at line granularity inside pjrpc.  The threads share the virtual
    clock (a blocking sleep of one thread moves it for all), so gaps are not judged here: per caller the number of
    sends, the sleep arguments and the outcome are."""
    import os
    import threading
    from types import SimpleNamespace
    from ..stack import Stack
    from ..threads import BatonScheduler
    ch = w.ch
    n_callers = 2 + ch.draw(2, 'concurrent.n')
    strategy = CS.draw_strategy(ch)
    strategy['backoff']['jitter_seq'] = False
    if strategy['backoff']['attempts'] == 0:
        strategy['backoff']['attempts'] = 2
    strict = not ch.flag(1, 5, 'client.nonstrict')
    scns = []
    for k in range(n_callers):
        scn = CS.draw_scenario(ch, cancel=False, max_tracers=0)
        if scn['placement'] in ('none', 'client'):
            scn['placement'], scn['request_strategy'] = 'client', 'unset'
        elif scn['placement'] == 'request':
            scn['placement'] = 'replaced'
        if isinstance(scn['request_strategy'], dict):
            scn['request_strategy']['backoff']['jitter_seq'] = False
        scn.update(client_strategy=strategy, strict=strict, server_async=False, tracers=0, in_except=False)
        eff = CS.effective_strategy(scn)
        scn['script'] = (scn['script'] * 4)[:(eff['backoff']['attempts'] if eff else 0) + 2]
        for step in scn['script']:
            if step['outcome'] in ('abort', 'exc_cancelled'):
                step['outcome'] = 'exc_other'      # a BaseException would end the worker thread, not the call
        normalise_script(scn)
        scns.append(scn)
    w.scenario = {'client_async': False, 'concurrent': 'threads', 'callers': scns}
    w.nontrivial = True
    st = Stack(w, False, False, None,
               client_kwargs={'strict': strict, 'tracers': [], 'retry_strategy': CS.build_strategy(strategy)})
    st.service.add_flaky(st.net.name)
    st.dispatcher.add_methods(st.service.registry(['flaky']))
    obss: List[CS.Obs] = []
    ops = []
    for k, scn in enumerate(scns):
        toks = [f'q{k}e{j}' for j in range(scn['n_elems'])]
        st.net.keyed_scripts[toks[0]] = CS._net_script(scn)
        w.plan[('flaky', toks[0])] = CS._flaky_plan(scn)
        for t in toks[1:]:
            w.plan[('flaky', t)] = ['ok'] * len(scn['script'])
        obs = CS.Obs()
        obs.stack, obs.tok = st, toks[0]
        obss.append(obs)
        ops.append(CS.make_op(st, scn, toks, obs))
    for reset in CS._JITTER_RESETS:
        reset()

    def worker(k: int):
        def run() -> None:
            threading.current_thread().pjsim_caller = k     # type: ignore[attr-defined]
            scn, obs = scns[k], obss[k]
            w.rec('client', 'caller.invoke', req_kind=scn['kind'], via=scn['via'], caller=k)
            try:
                obs.outcome = ('value', ops[k]())
                w.rec('client', 'caller.return', outcome='value', caller=k)
            except Exception as e:  # noqa: BLE001
                obs.outcome = ('raise', e)
                w.rec('client', 'caller.return', outcome='raise', exc=type(e).__name__, oid=w.ordinal(e), caller=k)
        return run

    sched = BatonScheduler(w, switch_den=ch.choice([3, 6, 12], 'threads.den'),
                           extra_files=[os.path.abspath(CS.__file__)])
    sched.run([worker(k) for k in range(n_callers)])
    if any(not o.outcome for o in obss):
        from ..world import HarnessError
        raise HarnessError('a caller thread did not finish')
    if sched.switches:
        w.probe('threads_switched')
    summary = []
    for k, (scn, obs) in enumerate(zip(scns, obss)):
        tok = obs.tok
        obs.records = [r for r in w.history
                       if (r['kind'].startswith('wire.') and r.get('key') == tok)
                       or (r['kind'] == 'sleep' and r.get('task') == k)
                       or (r['kind'].startswith('caller.') and r.get('caller') == k)]
        obs.net = SimpleNamespace(raised=st.net.raised_keyed.get(tok, []))
        before = len(w.violations)
        summary.append(judge(w, scn, obs, False, timing=False))
        if len(w.violations) > before:
            for v in w.violations[before:]:
                v.ctx['caller'] = k
                v.ctx['concurrent'] = 'threads'
            return
    w.sig_parts = summary


SWEEP_SINGLE = ['ok', 'err_listed', 'err_unlisted', 'exc_conn', 'exc_reset', 'exc_other', 'lost_conn']
SWEEP_BATCH = ['ok', 'batch_err_listed', 'batch_err_unlisted', 'exc_conn', 'exc_reset', 'exc_other', 'err_listed']
SWEEP_NOTIFY = ['ok', 'exc_conn', 'exc_reset', 'exc_other']


def systematic(tier: str):
    """Every outcome sequence of length n+2 over the property's outcome alphabet, for n up to 1 (quick) / 3 (thorough),
    for single / batch / notification requests (forced by label; everything else seeded)."""
    import itertools
    max_n = 1 if tier == 'quick' else 3
    for kind, alphabet in (('single', SWEEP_SINGLE), ('batch', SWEEP_BATCH), ('notify', SWEEP_NOTIFY)):
        for n in range(max_n + 1):
            for k, seq in enumerate(itertools.product(alphabet, repeat=n + 2)):
                yield CS.forced_script(kind, n, list(seq), strategy_variant=k)


FAMILIES = {'retry.sync': _family(False), 'retry.async': _family(True),
            'retry.history.sync': _history_family(False), 'retry.history.async': _history_family(True),
            'retry.concurrent.async': fam_concurrent_async, 'retry.concurrent.threads': fam_concurrent_threads}
SYSTEMATIC = {'retry.sync': systematic, 'retry.async': systematic}
RULE = ('systematic part: every per-attempt outcome sequence of length n+2 over {success, listed code, unlisted code, '
        'batch-level listed / unlisted error, listed exception, subclass of a listed exception, unlisted exception, lost '
        'reply} for n <= 1 (quick) / n <= 3 (thorough) x single / batch / notification, forced by label, the rest of the '
        'scenario (backoff family and parameters, latencies, placement details, notation, server kind) seeded; random part: '
        'seeded scenarios incl. per-request / disabled / replaced strategies; distinct = distinct history digest; '
        'non-trivial = at least one fault fired')
PLAN = {
    'quick': {'retry.sync': 60000, 'retry.async': 60000, 'retry.history.sync': 15000, 'retry.history.async': 15000,
              'retry.concurrent.async': 20000, 'retry.concurrent.threads': 6000},
    'thorough': {'retry.sync': 40000, 'retry.async': 40000, 'retry.history.sync': 40000, 'retry.history.async': 40000,
                 'retry.concurrent.async': 40000, 'retry.concurrent.threads': 12000},
}
THOROUGH_BUDGET_S = 600
