"""C19 - tracers see every attempt begin and complete exactly once.

Recording tracers on the real client; per-attempt outcomes scripted on SimNet (responses, error responses,
transport exceptions, undecodable / invalid / mismatching replies, a BaseException), retries under the
virtual clock, and - on the async client - cancellation of the caller at a seeded virtual instant.
Oracle: pairing of begin / end / error records over the history (DESIGN.md Appendix F.6).
"""
from __future__ import annotations

import asyncio
import json
from typing import Any, Dict, List, Optional

from pjrpc.common.exceptions import JsonRpcError

from .. import clientscn as CS
from .. import gen
from ..ref import jsonrpc as R
from ..world import World
from . import c09

PROP = 'C19'
LEVEL = 'exploration'
REAL = ['pjrpc/client/client.py (traced / retried wrappers, _send, send, call, notify, batches)',
        'pjrpc/client/tracer.py (Tracer base class)', 'pjrpc/client/retry.py', 'pjrpc/common/v20.py',
        'pjrpc/server/dispatcher.py (serving the attempts that reach the server)']
STUB = ['transport (SimNet: scripted per-attempt outcomes)', 'sleeping (virtual clock)', 'event loop (SimLoop)',
        'cancellation source (a timer on the simulated loop cancels the caller task)']
ASSUMPTIONS = ['tracers do not raise', 'an attempt is delimited by the tracers\' own begin records (F.6)']

RETURNED = ('ok', 'err_listed', 'err_unlisted', 'batch_err_listed', 'batch_err_unlisted')


def judge(w: World, scn: Dict[str, Any], obs: CS.Obs, client_async: bool) -> Dict[str, Any]:
    ctx = {'kind': scn['kind'], 'via': scn['via'], 'client_async': client_async, 'tracers': scn['tracers'],
           'cancelled': obs.cancelled_at is not None}
    recs = obs.records
    nt = scn['tracers']
    events = [r for r in recs if r['kind'] in ('trace.begin', 'trace.end', 'trace.error', 'wire.send',
                                               'wire.deliver', 'wire.raise')]
    trace = [r for r in events if r['kind'].startswith('trace.')]
    sends = [r for r in events if r['kind'] == 'wire.send']
    summary: Dict[str, Any] = {'events': [(r['kind'], r.get('tracer')) for r in trace]}
    if nt == 0:
        if trace:
            w.violate('C19.pairing', 'tracer events without tracers', **ctx)
        return summary
    # -- per tracer: (begin (end|error))*, complete when the caller has its outcome ---------------------------
    brackets: Dict[int, List[List[Dict[str, Any]]]] = {i: [] for i in range(nt)}
    for i in range(nt):
        open_b: Optional[Dict[str, Any]] = None
        for r in trace:
            if r['tracer'] != i:
                continue
            if r['kind'] == 'trace.begin':
                if open_b is not None:
                    w.violate('C19.pairing', f'tracer {i}: begin while the previous attempt has no completion event',
                              **ctx)
                open_b = r
            else:
                if open_b is None:
                    w.violate('C19.pairing', f'tracer {i}: {r["kind"]} without a begin (double completion?)', **ctx)
                    continue
                brackets[i].append([open_b, r])
                open_b = None
        if open_b is not None:
            w.violate('C19.pairing', f'tracer {i}: the call has returned/raised but an attempt\'s begin has no '
                      f'completion event (begin={len(brackets[i]) + 1}, completions={len(brackets[i])})', **ctx)
            return summary
    n_att = len(brackets[0])
    if any(len(b) != n_att for b in brackets.values()):
        w.violate('C19.pairing', f'tracers saw different numbers of attempts: '
                  f'{[len(b) for b in brackets.values()]}', **ctx)
        return summary
    if n_att >= 2:
        w.nontrivial = True
        w.probe('traced_retry')
    # -- every send lies inside exactly one bracket; a bracket holds at most one send -------------------------
    for i in range(nt):
        for s in sends:
            inside = [b for b in brackets[i] if b[0]['seq'] < s['seq'] < b[1]['seq']]
            if len(inside) != 1:
                w.violate('C19.attempt', f'tracer {i}: send of attempt {s["attempt"]} is not inside exactly one '
                          f'begin..completion bracket', **ctx)
        for k, b in enumerate(brackets[i]):
            inner = [s for s in sends if b[0]['seq'] < s['seq'] < b[1]['seq']]
            if len(inner) > 1:
                w.violate('C19.attempt', f'tracer {i}: {len(inner)} sends between one begin and its completion', **ctx)
            if not inner and obs.cancelled_at is None:
                w.violate('C19.attempt', f'tracer {i}: bracket {k} contains no send', **ctx)
    # -- order within a phase; same context; same request --------------------------------------------------------
    caller_ctx = w.ordinal(obs.trace_ctx) if obs.trace_ctx is not None else None
    req_ord = w.ordinal(obs.request) if obs.request is not None else None
    for k in range(n_att):
        begins = [brackets[i][k][0] for i in range(nt)]
        comps = [brackets[i][k][1] for i in range(nt)]
        for phase, rs in (('begin', begins), ('completion', comps)):
            seqs = [r['seq'] for r in rs]
            if seqs != sorted(seqs) or (seqs and seqs[-1] - seqs[0] != len(seqs) - 1):
                w.violate('C19.order', f'attempt {k}: {phase} events not delivered to the tracers consecutively in '
                          f'configuration order (seqs {seqs})', **ctx)
        ctxs = {r['ctx'] for r in begins + comps}
        if len(ctxs) != 1:
            w.violate('C19.context', f'attempt {k}: begin and completion events carry different trace contexts '
                      f'{sorted(ctxs)}', **ctx)
        elif caller_ctx is not None and ctxs != {caller_ctx}:
            w.violate('C19.context', f'attempt {k}: tracers did not receive the caller-supplied trace context', **ctx)
        kinds = {r['kind'] for r in comps}
        if len(kinds) != 1:
            w.violate('C19.pairing', f'attempt {k}: tracers disagree on the completion kind {sorted(kinds)}', **ctx)
        reqs = {r['req'] for r in begins + comps}
        if len(reqs) != 1 or (req_ord is not None and reqs != {req_ord}):
            w.violate('C19.request', f'attempt {k}: tracer events do not carry the request object that was sent', **ctx)
    # -- completion kind and payload agree with what the attempt did ---------------------------------------------
    ends = {r['attempt']: r for r in recs if r['kind'] in ('wire.deliver', 'wire.raise')}
    outcomes = [s['outcome'] for s in scn['script']]
    notif = scn['kind'] in ('notify', 'batch_notify')
    for k in range(n_att):
        comp = brackets[0][k][1]
        inner = [s for s in sends if brackets[0][k][0]['seq'] < s['seq'] < comp['seq']]
        if not inner:
            continue
        a = inner[0]['attempt']
        o = outcomes[a] if a < len(outcomes) else 'ok'
        end = ends.get(a)
        cancelled_here = obs.cancelled_at is not None and (end is None or end['seq'] > comp['seq'])
        if cancelled_here:
            w.probe('cancel.in_transport')
            if comp['kind'] != 'trace.error' or comp['exc'] != 'CancelledError':
                w.violate('C19.completion', f'attempt {a} was cancelled inside the transport but completed with '
                          f'{comp["kind"]} {comp.get("exc")}', **ctx)
            continue
        returned = o in RETURNED or (o == 'id_mismatch' and not scn['strict'])
        if notif and o in ('garbage', 'invalid', 'id_mismatch'):
            returned = True
        if returned:
            if comp['kind'] != 'trace.end':
                w.violate('C19.completion', f'attempt {a} returned ({o}) but tracers got {comp["kind"]} '
                          f'{comp.get("exc")}', outcome=o, **ctx)
                continue
            for i in range(nt):
                c = brackets[i][k][1]
                if notif:
                    if c['resp'] is not None:
                        w.violate('C19.completion', f'attempt {a}: end event of a notification carries a response',
                                  **ctx)
                elif end is not None and end.get('text') is not None:
                    if c['resp_doc'] is None or not R.same_document(c['resp_doc'], json.loads(end['text'])):
                        w.violate('C19.completion', f'attempt {a}: end event carries {c["resp_doc"]!r}, the reply was '
                                  f'{end["text"][:100]}', **ctx)
        else:
            if comp['kind'] != 'trace.error':
                w.violate('C19.completion', f'attempt {a} raised ({o}) but tracers got {comp["kind"]}', outcome=o, **ctx)
                continue
            if o in c09.OUTCOME_EXC:
                want_oid = end.get('oid') if end is not None else None
                for i in range(nt):
                    if brackets[i][k][1]['oid'] != want_oid:
                        w.violate('C19.completion', f'attempt {a}: on_error did not receive the exception object the '
                                  f'transport raised', **ctx)
            else:
                want = {'garbage': 'JSONDecodeError', 'invalid': 'DeserializationError', 'id_mismatch': 'IdentityError'}[o]
                if comp['exc'] != want:
                    w.violate('C19.completion', f'attempt {a} ({o}): on_error got {comp["exc"]}, expected {want}', **ctx)
    # -- the exception still reaches the caller unchanged ----------------------------------------------------------
    if obs.outcome[0] == 'raise' and n_att:
        last = brackets[0][n_att - 1][1]
        exc = obs.exc
        if (isinstance(exc, asyncio.CancelledError) and obs.cancelled_at is not None
                and not (last['kind'] == 'trace.error' and last['exc'] == 'CancelledError')):
            w.probe('cancel.in_backoff_sleep')  # the cancellation landed between two attempts
        elif last['kind'] == 'trace.error':
            if last['oid'] != w.ordinal(exc):
                w.violate('C19.caller', f'the caller got {type(exc).__name__}, not the exception object passed to '
                          f'on_error ({last["exc"]})', **ctx)
        elif not isinstance(exc, JsonRpcError):
            w.violate('C19.caller', f'the caller got {type(exc).__name__} although the last attempt completed with '
                      f'an end event', **ctx)
    if obs.cancelled_at is not None and not sends:
        w.probe('cancel.before_first_send')
    if scn.get('cancel_at') is not None and obs.cancelled_at is None:
        w.probe('cancel.after_reply')
    return summary


def _family(client_async: bool):
    def fam(w: World) -> None:
        scn = CS.draw_scenario(w.ch, cancel=client_async, max_tracers=3)
        c09.normalise_script(scn)
        w.scenario = dict(scn, client_async=client_async)
        obs = CS.run_scenario(w, scn, client_async, allow_stopiter=True)
        judge(w, scn, obs, client_async)
    return fam


def _history_family(client_async: bool):
    def fam(w: World) -> None:
        """A long-lived client: several scripted requests one after another; pairing is judged per request."""
        ch = w.ch
        n_req = 2 + ch.draw(3, 'history.n')
        first = CS.draw_scenario(ch, cancel=False, max_tracers=3)
        first['placement'], first['request_strategy'] = 'client', 'unset'
        n = first['client_strategy']['backoff']['attempts'] if first['client_strategy'] else 0
        scns = [first]
        for _ in range(n_req - 1):
            nxt = CS.draw_scenario(ch, cancel=False, max_tracers=3)
            for key in ('client_strategy', 'strict', 'server_async', 'tracers'):
                nxt[key] = first[key]
            nxt['placement'], nxt['request_strategy'] = 'client', 'unset'
            scns.append(nxt)
        for scn in scns:
            scn['script'] = (scn['script'] * 3)[:n + 2]
            c09.normalise_script(scn)
        w.scenario = {'client_async': client_async, 'requests': scns}
        w.nontrivial = True
        stack = None
        for r, scn in enumerate(scns):
            obs = CS.run_scenario(w, scn, client_async, reuse=stack, tok_prefix=f'r{r}f')
            stack = obs.stack
            before = len(w.violations)
            judge(w, scn, obs, client_async)
            if len(w.violations) > before:
                for v in w.violations[before:]:
                    v.ctx['request_index'] = r
                return
    return fam


def _judge_overlapping(w: World, recs: List[Dict[str, Any]], calls: List[Dict[str, Any]], nt: int, ctx: Dict[str, Any]) -> None:
    """Overlapping calls on one client: events are paired per request object, not globally."""
    trace = [r for r in recs if r['kind'].startswith('trace.')]
    for c in calls:
        for i in range(nt):
            evs = [r for r in trace if r['tracer'] == i and r['req'] == c['req_ord']]
            kinds = [r['kind'] for r in evs]
            if kinds[:1] != ['trace.begin'] or len(kinds) != 2 or kinds[1] == 'trace.begin':
                w.violate('C19.pairing', f'tracer {i}, call {c["k"]}: events {kinds} for its request instead of one begin '
                          f'followed by exactly one completion', **ctx)
                return
            begin, comp = evs
            if begin['ctx'] != comp['ctx'] or (c['ctx_ord'] is not None and begin['ctx'] != c['ctx_ord']):
                w.violate('C19.context', f'tracer {i}, call {c["k"]}: begin and completion carry different trace contexts '
                          f'({begin["ctx"]} / {comp["ctx"]}; caller supplied {c["ctx_ord"]})', **ctx)
                return
            if c['outcome'][0] == 'value':
                doc = comp.get('resp_doc')
                if comp['kind'] != 'trace.end' or not isinstance(doc, dict) or doc.get('id') != c['id']:
                    w.violate('C19.completion', f'tracer {i}, call {c["k"]} returned but its completion event is '
                              f'{comp["kind"]} with {doc!r}', **ctx)
                    return
            else:
                if comp['kind'] != 'trace.error' or comp['oid'] != w.ordinal(c['outcome'][1]):
                    w.violate('C19.completion', f'tracer {i}, call {c["k"]} raised {type(c["outcome"][1]).__name__} but '
                              f'its completion event is {comp["kind"]} {comp.get("exc")}', **ctx)
                    return
    stray = [r for r in trace if r['req'] not in {c['req_ord'] for c in calls}]
    if stray:
        w.violate('C19.pairing', f'{len(stray)} tracer events carry a request object no call was made with', **ctx)


def _draw_calls(w: World, n: int) -> List[Dict[str, Any]]:
    ch = w.ch
    calls = []
    for k in range(n):
        method = ch.choice(['slow', 'echo', 'fail_exc', 'nosuch'], 'call.method')
        params = [f'c{k}'] if method != 'fail_exc' else [f'c{k}', 'value']
        calls.append({'k': k, 'method': method, 'params': params, 'id': ch.choice([1, 2, 'a', 7, 0, 'b', 9][k::3] or [k], 'call.id'),
                      'own_ctx': bool(ch.draw(2, 'call.ctx')), 'delay': ch.choice(gen.PAUSES, 'call.delay')})
        w.plan[('method', f'c{k}')] = [ch.choice(gen.PAUSES, 'pause.d') for _ in range(ch.draw(3, 'pause.n'))]
    return calls


def fam_concurrent_async(w: World) -> None:
    """Two or three calls in flight at the same time on ONE asynchronous client."""
    import asyncio
    import pjrpc
    from types import SimpleNamespace
    from ..stack import Stack
    ch = w.ch
    nt = 1 + ch.draw(3, 'tracers')
    n = 2 + ch.draw(2, 'calls')
    calls = _draw_calls(w, n)
    script = [{'pre': ch.choice(gen.PAUSES, 'net.pre'), 'post': ch.choice(gen.PAUSES, 'net.post')} for _ in range(n)]
    tracers = [CS.RecTracer(w, i, 'client') for i in range(nt)]
    st = Stack(w, True, bool(ch.draw(2, 'server_async')), None, client_kwargs={'tracers': tracers}, script=script)
    w.scenario = {'calls': calls, 'tracers': nt, 'script': script, 'variant': 'async tasks'}
    w.nontrivial = True

    async def one(c: Dict[str, Any]) -> None:
        await asyncio.sleep(c['delay'])
        req = pjrpc.Request(c['method'], c['params'], c['id'])
        tctx = SimpleNamespace(mark=f'ctx{c["k"]}') if c['own_ctx'] else None
        c['req_ord'] = w.ordinal(req)
        c['ctx_ord'] = w.ordinal(tctx) if tctx is not None else None
        try:
            c['outcome'] = ('value', await st.client.send(req, _trace_ctx=tctx))
        except Exception as e:  # noqa: BLE001
            c['outcome'] = ('raise', e)

    async def main() -> None:
        await asyncio.gather(*(one(c) for c in calls))

    assert st.loop is not None
    st.loop.run_until_complete(main())
    begins = [r['seq'] for r in w.history if r['kind'] == 'trace.begin' and r['tracer'] == 0]
    comps = [r['seq'] for r in w.history if r['kind'] in ('trace.end', 'trace.error') and r['tracer'] == 0]
    if len(begins) >= 2 and comps and begins[1] < comps[0]:
        w.probe('attempts_overlapped')
    w.sig_parts = [(r['kind'], r['req']) for r in w.history if r['kind'].startswith('trace.') and r['tracer'] == 0]
    _judge_overlapping(w, list(w.history), calls, nt, {'variant': 'concurrent.async', 'tracers': nt})


def fam_concurrent_threads(w: World) -> None:
    """Two or three caller threads share ONE synchronous client; the baton scheduler interleaves them."""
    import os
    import pjrpc
    from types import SimpleNamespace
    from .. import net as NET
    from .. import service as SVC
    from ..stack import Stack
    from ..threads import BatonScheduler
    ch = w.ch
    nt = 1 + ch.draw(3, 'tracers')
    n = 2 + ch.draw(2, 'calls')
    calls = _draw_calls(w, n)
    tracers = [CS.RecTracer(w, i, 'client') for i in range(nt)]
    st = Stack(w, False, False, None, client_kwargs={'tracers': tracers})
    w.scenario = {'calls': calls, 'tracers': nt, 'variant': 'threads'}
    w.nontrivial = True

    def worker(c: Dict[str, Any]):
        def run() -> None:
            req = pjrpc.Request(c['method'], c['params'], c['id'])
            tctx = SimpleNamespace(mark=f'ctx{c["k"]}') if c['own_ctx'] else None
            c['req_ord'] = w.ordinal(req)
            c['ctx_ord'] = w.ordinal(tctx) if tctx is not None else None
            try:
                c['outcome'] = ('value', st.client.send(req, _trace_ctx=tctx))
            except Exception as e:  # noqa: BLE001
                c['outcome'] = ('raise', e)
        return run

    sched = BatonScheduler(w, switch_den=ch.choice([3, 6, 12], 'threads.den'),
                           extra_files=[os.path.abspath(NET.__file__), os.path.abspath(SVC.__file__),
                                        os.path.abspath(CS.__file__)])
    sched.run([worker(c) for c in calls])
    if any('outcome' not in c for c in calls):
        from ..world import HarnessError
        raise HarnessError('a caller thread did not finish')
    _judge_overlapping(w, list(w.history), calls, nt, {'variant': 'concurrent.threads', 'tracers': nt})


FAMILIES = {'trace.sync': _family(False), 'trace.async': _family(True),
            'trace.history.sync': _history_family(False), 'trace.history.async': _history_family(True),
            'trace.concurrent.async': fam_concurrent_async, 'trace.concurrent.threads': fam_concurrent_threads}
PLAN = {
    'quick': {'trace.sync': 48000, 'trace.async': 64000, 'trace.concurrent.async': 20000, 'trace.concurrent.threads': 3000,
              'trace.history.sync': 10000, 'trace.history.async': 10000},
    'thorough': {'trace.sync': 40000, 'trace.async': 60000, 'trace.concurrent.async': 60000, 'trace.concurrent.threads': 9000,
                 'trace.history.sync': 30000, 'trace.history.async': 30000},
}
THOROUGH_BUDGET_S = 600
