"""C19 - tracers see every attempt begin and complete exactly once.

Recording tracers on the real client; per-attempt outcomes scripted on SimNet (responses, error responses,
transport exceptions, undecodable / invalid / mismatching replies, a BaseException), retries under the
virtual clock, and - on the async client - cancellation of the caller at a seeded virtual instant.
Oracle: pairing of begin / end / error records over the history (DESIGN.md Appendix F.6).
"""
from __future__ import annotations

import asyncio
import json
from typing import Any, Dict, List, Optional

from pjrpc.common.exceptions import JsonRpcError

from .. import clientscn as CS
from ..ref import jsonrpc as R
from ..world import World
from . import c09

PROP = 'C19'
LEVEL = 'exploration'
REAL = ['pjrpc/client/client.py (traced / retried wrappers, _send, send, call, notify, batches)',
        'pjrpc/client/tracer.py (Tracer base class)', 'pjrpc/client/retry.py', 'pjrpc/common/v20.py',
        'pjrpc/server/dispatcher.py (serving the attempts that reach the server)']
STUB = ['transport (SimNet: scripted per-attempt outcomes)', 'sleeping (virtual clock)', 'event loop (SimLoop)',
        'cancellation source (a timer on the simulated loop cancels the caller task)']
ASSUMPTIONS = ['tracers do not raise', 'an attempt is delimited by the tracers\' own begin records (F.6)']

RETURNED = ('ok', 'err_listed', 'err_unlisted', 'batch_err_listed', 'batch_err_unlisted')


def judge(w: World, scn: Dict[str, Any], obs: CS.Obs, client_async: bool) -> Dict[str, Any]:
    ctx = {'kind': scn['kind'], 'via': scn['via'], 'client_async': client_async, 'tracers': scn['tracers'],
           'cancelled': obs.cancelled_at is not None}
    recs = obs.records
    nt = scn['tracers']
    events = [r for r in recs if r['kind'] in ('trace.begin', 'trace.end', 'trace.error', 'wire.send',
                                               'wire.deliver', 'wire.raise')]
    trace = [r for r in events if r['kind'].startswith('trace.')]
    sends = [r for r in events if r['kind'] == 'wire.send']
    summary: Dict[str, Any] = {'events': [(r['kind'], r.get('tracer')) for r in trace]}
    if nt == 0:
        if trace:
            w.violate('C19.pairing', 'tracer events without tracers', **ctx)
        return summary
    # -- per tracer: (begin (end|error))*, complete when the caller has its outcome ---------------------------
    brackets: Dict[int, List[List[Dict[str, Any]]]] = {i: [] for i in range(nt)}
    for i in range(nt):
        open_b: Optional[Dict[str, Any]] = None
        for r in trace:
            if r['tracer'] != i:
                continue
            if r['kind'] == 'trace.begin':
                if open_b is not None:
                    w.violate('C19.pairing', f'tracer {i}: begin while the previous attempt has no completion event',
                              **ctx)
                open_b = r
            else:
                if open_b is None:
                    w.violate('C19.pairing', f'tracer {i}: {r["kind"]} without a begin (double completion?)', **ctx)
                    continue
                brackets[i].append([open_b, r])
                open_b = None
        if open_b is not None:
            w.violate('C19.pairing', f'tracer {i}: the call has returned/raised but an attempt\'s begin has no '
                      f'completion event (begin={len(brackets[i]) + 1}, completions={len(brackets[i])})', **ctx)
            return summary
    n_att = len(brackets[0])
    if any(len(b) != n_att for b in brackets.values()):
        w.violate('C19.pairing', f'tracers saw different numbers of attempts: '
                  f'{[len(b) for b in brackets.values()]}', **ctx)
        return summary
    if n_att >= 2:
        w.nontrivial = True
        w.probe('traced_retry')
    # -- every send lies inside exactly one bracket; a bracket holds at most one send -------------------------
    for i in range(nt):
        for s in sends:
            inside = [b for b in brackets[i] if b[0]['seq'] < s['seq'] < b[1]['seq']]
            if len(inside) != 1:
                w.violate('C19.attempt', f'tracer {i}: send of attempt {s["attempt"]} is not inside exactly one '
                          f'begin..completion bracket', **ctx)
        for k, b in enumerate(brackets[i]):
            inner = [s for s in sends if b[0]['seq'] < s['seq'] < b[1]['seq']]
            if len(inner) > 1:
                w.violate('C19.attempt', f'tracer {i}: {len(inner)} sends between one begin and its completion', **ctx)
            if not inner and obs.cancelled_at is None:
                w.violate('C19.attempt', f'tracer {i}: bracket {k} contains no send', **ctx)
    # -- order within a phase; same context; same request --------------------------------------------------------
    caller_ctx = w.ordinal(obs.trace_ctx) if obs.trace_ctx is not None else None
    req_ord = w.ordinal(obs.request) if obs.request is not None else None
    for k in range(n_att):
        begins = [brackets[i][k][0] for i in range(nt)]
        comps = [brackets[i][k][1] for i in range(nt)]
        for phase, rs in (('begin', begins), ('completion', comps)):
            seqs = [r['seq'] for r in rs]
            if seqs != sorted(seqs) or (seqs and seqs[-1] - seqs[0] != len(seqs) - 1):
                w.violate('C19.order', f'attempt {k}: {phase} events not delivered to the tracers consecutively in '
                          f'configuration order (seqs {seqs})', **ctx)
        ctxs = {r['ctx'] for r in begins + comps}
        if len(ctxs) != 1:
            w.violate('C19.context', f'attempt {k}: begin and completion events carry different trace contexts '
                      f'{sorted(ctxs)}', **ctx)
        elif caller_ctx is not None and ctxs != {caller_ctx}:
            w.violate('C19.context', f'attempt {k}: tracers did not receive the caller-supplied trace context', **ctx)
        kinds = {r['kind'] for r in comps}
        if len(kinds) != 1:
            w.violate('C19.pairing', f'attempt {k}: tracers disagree on the completion kind {sorted(kinds)}', **ctx)
        reqs = {r['req'] for r in begins + comps}
        if len(reqs) != 1 or (req_ord is not None and reqs != {req_ord}):
            w.violate('C19.request', f'attempt {k}: tracer events do not carry the request object that was sent', **ctx)
    # -- completion kind and payload agree with what the attempt did ---------------------------------------------
    ends = {r['attempt']: r for r in recs if r['kind'] in ('wire.deliver', 'wire.raise')}
    outcomes = [s['outcome'] for s in scn['script']]
    notif = scn['kind'] in ('notify', 'batch_notify')
    for k in range(n_att):
        comp = brackets[0][k][1]
        inner = [s for s in sends if brackets[0][k][0]['seq'] < s['seq'] < comp['seq']]
        if not inner:
            continue
        a = inner[0]['attempt']
        o = outcomes[a] if a < len(outcomes) else 'ok'
        end = ends.get(a)
        cancelled_here = obs.cancelled_at is not None and (end is None or end['seq'] > comp['seq'])
        if cancelled_here:
            w.probe('cancel.in_transport')
            if comp['kind'] != 'trace.error' or comp['exc'] != 'CancelledError':
                w.violate('C19.completion', f'attempt {a} was cancelled inside the transport but completed with '
                          f'{comp["kind"]} {comp.get("exc")}', **ctx)
            continue
        returned = o in RETURNED or (o == 'id_mismatch' and not scn['strict'])
        if notif and o in ('garbage', 'invalid', 'id_mismatch'):
            returned = True
        if returned:
            if comp['kind'] != 'trace.end':
                w.violate('C19.completion', f'attempt {a} returned ({o}) but tracers got {comp["kind"]} '
                          f'{comp.get("exc")}', outcome=o, **ctx)
                continue
            for i in range(nt):
                c = brackets[i][k][1]
                if notif:
                    if c['resp'] is not None:
                        w.violate('C19.completion', f'attempt {a}: end event of a notification carries a response',
                                  **ctx)
                elif end is not None and end.get('text') is not None:
                    if c['resp_doc'] is None or not R.same_document(c['resp_doc'], json.loads(end['text'])):
                        w.violate('C19.completion', f'attempt {a}: end event carries {c["resp_doc"]!r}, the reply was '
                                  f'{end["text"][:100]}', **ctx)
        else:
            if comp['kind'] != 'trace.error':
                w.violate('C19.completion', f'attempt {a} raised ({o}) but tracers got {comp["kind"]}', outcome=o, **ctx)
                continue
            if o in c09.OUTCOME_EXC:
                want_oid = end.get('oid') if end is not None else None
                for i in range(nt):
                    if brackets[i][k][1]['oid'] != want_oid:
                        w.violate('C19.completion', f'attempt {a}: on_error did not receive the exception object the '
                                  f'transport raised', **ctx)
            else:
                want = {'garbage': 'JSONDecodeError', 'invalid': 'DeserializationError', 'id_mismatch': 'IdentityError'}[o]
                if comp['exc'] != want:
                    w.violate('C19.completion', f'attempt {a} ({o}): on_error got {comp["exc"]}, expected {want}', **ctx)
    # -- the exception still reaches the caller unchanged ----------------------------------------------------------
    if obs.outcome[0] == 'raise' and n_att:
        last = brackets[0][n_att - 1][1]
        exc = obs.exc
        if (isinstance(exc, asyncio.CancelledError) and obs.cancelled_at is not None
                and not (last['kind'] == 'trace.error' and last['exc'] == 'CancelledError')):
            w.probe('cancel.in_backoff_sleep')  # the cancellation landed between two attempts
        elif last['kind'] == 'trace.error':
            if last['oid'] != w.ordinal(exc):
                w.violate('C19.caller', f'the caller got {type(exc).__name__}, not the exception object passed to '
                          f'on_error ({last["exc"]})', **ctx)
        elif not isinstance(exc, JsonRpcError):
            w.violate('C19.caller', f'the caller got {type(exc).__name__} although the last attempt completed with '
                      f'an end event', **ctx)
    if obs.cancelled_at is not None and not sends:
        w.probe('cancel.before_first_send')
    if scn.get('cancel_at') is not None and obs.cancelled_at is None:
        w.probe('cancel.after_reply')
    return summary


def _family(client_async: bool):
    def fam(w: World) -> None:
        scn = CS.draw_scenario(w.ch, cancel=client_async, max_tracers=3)
        c09.normalise_script(scn)
        w.scenario = dict(scn, client_async=client_async)
        obs = CS.run_scenario(w, scn, client_async)
        judge(w, scn, obs, client_async)
    return fam


FAMILIES = {'trace.sync': _family(False), 'trace.async': _family(True)}
PLAN = {
    'quick': {'trace.sync': 48000, 'trace.async': 64000},
    'thorough': {'trace.sync': 40000, 'trace.async': 60000},
}
THOROUGH_BUDGET_S = 600
