"""C02 - one response per call, none per notification; a batch maps over its elements.

The real dispatcher (sync / async under seeded schedules with suspending methods) serves generated single
requests and batches; the reply and the executions recorded by the instrumented methods are compared with
the reference dispatcher, and an accepted batch is compared element by element with the replies obtained by
sending each element alone to an identically configured fresh server (differential).
"""
from __future__ import annotations

import json
from typing import Any, Dict, List

from .. import serverscn as S
from ..ref import jsonrpc as R
from ..world import World

PROP = 'C02'
LEVEL = 'exploration'
REAL = ['pjrpc/server/dispatcher.py', 'pjrpc/common/v20.py', 'pjrpc/common/exceptions.py',
        'pjrpc/server/validators/base.py']
STUB = ['the peer (generated request documents)', 'event loop (SimLoop) for the async dispatcher']
ASSUMPTIONS = ['max_batch_size=0: both readings ("no limit", "reject every batch") are accepted (DESIGN.md F.1)',
               'methods are stateless; every element carries a unique token, so executions are attributable']


def _is_accepted_batch(doc: Any, reply_doc: Any) -> bool:
    if not isinstance(doc, list) or not doc:
        return False
    if isinstance(reply_doc, dict) and reply_doc.get('id') is None and 'error' in reply_doc \
            and reply_doc['error'].get('code') == R.INVALID_REQUEST:
        return False
    return True


def fam_exactly_once(w: World) -> None:
    """One to three documents, one after another, to one long-lived dispatcher; each judged on its own."""
    ch = w.ch
    n_deliveries = 1 + ch.draw(3, 'deliveries')
    infos = [S.gen_document(ch, exotic=True, allow_junk=False, tok_prefix=f'd{d}_' if d else '', reentrant=True,
                             dup_notification=True)
             for d in range(n_deliveries)]
    n = max((len(i['doc']) if isinstance(i['doc'], list) else 1) for i in infos)
    cfg = S.draw_config(ch, n)
    for d in range(n_deliveries):
        S.plan_pauses(w, cfg, n + 1, tok_prefix=f'd{d}_' if d else '')
    w.scenario = {'cfg': cfg, 'texts': [i['text'] for i in infos], 'kinds': [i['kinds'] for i in infos]}
    w.nontrivial = n_deliveries > 1 or infos[0]['shape'] == 'batch'
    sut = S.ServerUnderTest(w, cfg)
    for d, info in enumerate(infos):
        _one_delivery(w, sut, cfg, info, d)
        if w.violations:
            return
        if cfg['async'] and ch.flag(1, 3, 'new_event_loop'):
            sut.new_event_loop()
        if d + 1 < len(infos) and ch.flag(1, 4, 'redeploy'):
            sut.redeploy()


def _one_delivery(w: World, sut: S.ServerUnderTest, cfg: Dict[str, Any], info: Dict[str, Any], d: int) -> None:
    ctx = {'async': cfg['async'], 'max_batch_size': cfg['max_batch_size'], 'shape': info['shape'], 'delivery': d}
    outcome, doc = S.judge_delivery(w, PROP, sut, info['text'], ('wellformed', 'reference'), ctx)
    if outcome[0] == 'raise':
        return
    req_doc = info['doc']
    # (i)-(iii) stated directly on the reply
    if isinstance(req_doc, list) and all(R.valid_request(e) for e in req_doc) and req_doc:
        if all(e.get('id') is None for e in req_doc):
            w.probe('all_notification_batch')
            if outcome[1] is not None and _is_accepted_batch(req_doc, doc):
                w.violate('C02.all_notifications', f'a batch of notifications was answered with {outcome[1][0][:80]!r}', **ctx)
    # (iv) differential: the batch reply equals the replies of its elements sent alone, in request order
    if _is_accepted_batch(req_doc, doc) and all(R.valid_request(e) for e in req_doc):
        solo_cfg = dict(cfg)
        solo_replies: List[Any] = []
        for k, el in enumerate(req_doc):
            solo = S.ServerUnderTest(w, solo_cfg, node=f'solo{d}_{k}')
            out = solo.deliver(json.dumps(el))
            if out[0] == 'raise':
                w.violate('C02.solo', f'element {k} sent alone made dispatch raise {type(out[1]).__name__}', **ctx)
                return
            if out[1] is not None:
                ok, dd = R.strict_loads(out[1][0])
                solo_replies.append(dd)
        batch_replies = doc if isinstance(doc, list) else ([] if doc is None else [doc])
        if len(batch_replies) != len(solo_replies) or any(
                not _same_reply(a, b) for a, b in zip(batch_replies, solo_replies)):
            w.violate('C02.batch_is_map', f'batch reply {json.dumps(doc)[:160]} differs from the replies of its '
                      f'elements sent alone {json.dumps(solo_replies)[:160]}', **ctx)


def _same_reply(a: Any, b: Any) -> bool:
    if not isinstance(a, dict) or not isinstance(b, dict):
        return False
    if type(a.get('id')) is not type(b.get('id')) or a.get('id') != b.get('id'):
        return False
    if ('result' in a) != ('result' in b):
        return False
    if 'result' in a:
        return R.json_equal(a['result'], b['result'])
    ea, eb = a.get('error'), b.get('error')
    return isinstance(ea, dict) and isinstance(eb, dict) and ea.get('code') == eb.get('code') \
        and ea.get('message') == eb.get('message') and ('data' in ea) == ('data' in eb)


def systematic(tier: str):
    """Duplicate ids at every ordered pair of positions, for every batch length 2..5, both dispatchers."""
    reps = 3 if tier == 'quick' else 20
    for n in range(2, 6):
        for i in range(n):
            for j in range(n - 1):
                for srv in range(2):
                    for _ in range(reps):
                        yield {'doc.shape': [5], 'doc.len': [n - 1], 'doc.dup_id': [5], 'doc.dup.i': [i],
                               'doc.dup.j': [j], 'srv.async': [srv], 'doc.foreign_element': [0],
                               'doc.all_notifications': [0], 'el.notification': [0] * 5}


FAMILIES = {'server.exactly_once': fam_exactly_once}
SYSTEMATIC = {'server.exactly_once': systematic}
PLAN = {
    'quick': {'server.exactly_once': 120000},
    'thorough': {'server.exactly_once': 100000},
}
THOROUGH_BUDGET_S = 600
