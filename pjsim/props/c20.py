"""C20 - the pytest mocker answers as configured: round-robin, once, recorded.

The mocker is the simulated peer: it stands behind the patched transport method of a real client (sync, or
async with 2-3 caller tasks interleaved by the seeded loop); seeded histories of add / replace / remove and
calls (single and batch, positional and named, hand-built ids including 0) are replayed against a queue model.
"""
from __future__ import annotations

import asyncio
import json
from typing import Any, Dict, List, Optional, Tuple

import pjrpc
from pjrpc.client.integrations.pytest import PjRpcMocker
from pjrpc.common import UNSET
from pjrpc.common.exceptions import JsonRpcError

from .. import gen
from .. import mockclient as MC
from ..clientscn import RecTracer
from ..ref import jsonrpc as R
from ..ref.mocker import CALLBACKS, MockerModel
from ..stack import ensure_loop
from ..world import World

PROP = 'C20'
LEVEL = 'exploration'
REAL = ['pjrpc/client/integrations/pytest.py (PjRpcMocker: add, replace, remove, start/stop, _on_request, '
        '_match_request, calls)', 'pjrpc/client/client.py (the client whose transport method is patched)',
        'pjrpc/common/v20.py', 'unittest.mock (patching, call recording)']
STUB = ['the real transport behind the patch (canned replies, records passthrough)', 'event loop (SimLoop) for the '
        'asynchronous variant']
ASSUMPTIONS = ['remove only of existing keys; replace(idx) only while queue order and addition order coincide',
               'notifications are not sent through the mocker (the statement is silent on them)',
               'elements of a batch that follow the exhaustion of the endpoint\'s last patch inside the same batch are an '
               'open zone']

ENDPOINTS = ['http://a/api', 'http://b/api']
UNPATCHED_ENDPOINT = 'http://c/api'
SLASH_SIBLING = 'http://a/api/'      # another endpoint: differs from the first one by a trailing slash only
METHODS = ['m1', 'm2']
UNPATCHED_METHOD = 'm9'
IDS: List[Any] = [1, 0, 'x', 2, '', -1, 7, '0']


def _draw_patch(ch: Any) -> Tuple[str, Any, bool]:
    kind = ['result', 'error', 'callback'][ch.weighted([4, 2, 2], 'patch.kind')]
    if kind == 'result':
        value: Any = ch.choice([1, 'r', None, 0, [1, 2], {'k': 'v'}, False, ''], 'patch.result')
    elif kind == 'error':
        value = (ch.choice([2001, 1, -32000, 12345], 'patch.code'), ch.choice(['boom', 'm'], 'patch.message'))
    else:
        value = ch.choice(sorted(CALLBACKS), 'patch.callback')
    return kind, value, ch.flag(1, 3, 'patch.once')


def _mocker_kwargs(kind: str, value: Any, once: bool, endpoint: str = '', method: str = '') -> Dict[str, Any]:
    kw: Dict[str, Any] = {'once': once}
    if kind == 'result':
        kw['result'] = value
    elif kind == 'error':
        kw['error'] = JsonRpcError(code=value[0], message=value[1])
    elif value == 'reenter':
        from ..ref import mocker as ref_mocker

        def reenter(*a: Any, **k: Any) -> Any:
            # the nested call goes to the endpoint and method this very patch is registered for
            ref_mocker.REENTER_TARGET[0] = (endpoint, method)
            return CALLBACKS['reenter'](*a, **k)
        kw['callback'] = reenter
    else:
        kw['callback'] = CALLBACKS[value]
    return kw


def _draw_params(ch: Any) -> Any:
    return ch.choice([[1, 2], {'a': 1, 'b': 2}, [], ['s'], {'x': 'y'}, [0], {'a': 1.5}, [1, 2, 3],
                      # named parameters that happen to be called like things the mocker itself talks about
                      {'version': 2, 'name': 'users'}, {'endpoint': 'e', 'method_name': 'm'},
                      {'kwargs': 1, 'call': [1]}],
                     'call.params')


def _draw_ops(ch: Any, n_ops: int, model_for_preconditions: MockerModel, allow_batch: bool = True) -> List[Dict[str, Any]]:
    """Draw a history; the model is advanced alongside only to evaluate the generator preconditions."""
    m = model_for_preconditions
    ops: List[Dict[str, Any]] = []
    # swarm: some histories concentrate on one (endpoint, method) pair so that queues get deep
    focus = ch.flag(1, 3, 'ops.focus')
    ENDPOINTS_, METHODS_ = (ENDPOINTS[:1], METHODS[:1]) if focus else (ENDPOINTS, METHODS)
    for _ in range(n_ops):
        kind = ['call', 'add', 'batch', 'replace', 'remove'][ch.weighted([6, 4, 2 if allow_batch else 0, 1, 1], 'op.kind')]
        if kind == 'add':
            e, me = ch.choice(ENDPOINTS_, 'op.endpoint'), ch.choice(METHODS_, 'op.method')
            pk, pv, once = _draw_patch(ch)
            m.add(e, me, pk, pv, once)
            ops.append({'op': 'add', 'endpoint': e, 'method': me, 'patch': [pk, pv, once]})
        elif kind == 'replace':
            keys = [(e, me) for e in sorted(m.patches) for me in sorted(m.patches[e]) if m.aligned(e, me)]
            if not keys:
                continue
            e, me = ch.choice(keys, 'op.key')
            idx = ch.draw(len(m.patches[e][me]), 'op.idx')
            if ch.flag(1, 3, 'op.idx.from_end'):
                idx -= len(m.patches[e][me])      # the same position addressed from the end (-1 = the last patch)
            pk, pv, once = _draw_patch(ch)
            m.replace(e, me, idx, pk, pv, once)
            ops.append({'op': 'replace', 'endpoint': e, 'method': me, 'idx': idx, 'patch': [pk, pv, once]})
        elif kind == 'remove':
            if not m.patches:
                continue
            e = ch.choice(sorted(m.patches), 'op.endpoint')
            me = ch.choice([None] + sorted(m.patches[e]), 'op.method')
            m.remove(e, me)
            ops.append({'op': 'remove', 'endpoint': e, 'method': me})
        elif kind == 'call':
            e = ch.choice(ENDPOINTS_ + [UNPATCHED_ENDPOINT, SLASH_SIBLING], 'op.endpoint')
            me = ch.choice(METHODS_ + [UNPATCHED_METHOD], 'op.method')
            params, rid = _draw_params(ch), ch.choice(IDS, 'call.id')
            m.serve(e, me, params, rid)
            ops.append({'op': 'call', 'endpoint': e, 'method': me, 'params': params, 'id': rid,
                        'via': ch.choice(['send', 'call'], 'call.via')})
        else:
            e = ch.choice(ENDPOINTS_ + [UNPATCHED_ENDPOINT, SLASH_SIBLING], 'op.endpoint')
            n = 1 + ch.draw(3, 'batch.n')
            ids = ch.shuffle(IDS, 'batch.ids')[:n]
            els = [{'method': ch.choice(METHODS_ + [UNPATCHED_METHOD], 'op.method'), 'params': _draw_params(ch), 'id': i}
                   for i in ids]
            if e in m.patches:
                for el in els:
                    if e not in m.patches:
                        break
                    if m.serve(e, el['method'], el['params'], el['id'])['kind'] == 'callback_raises':
                        break
            ops.append({'op': 'batch', 'endpoint': e, 'elements': els})
    return ops


def _apply_config(mocker: PjRpcMocker, model: MockerModel, op: Dict[str, Any]) -> None:
    if op['op'] == 'add':
        pk, pv, once = op['patch']
        mocker.add(op['endpoint'], op['method'], **_mocker_kwargs(pk, pv, once, op['endpoint'], op['method']))
        model.add(op['endpoint'], op['method'], pk, pv, once)
    elif op['op'] == 'replace':
        pk, pv, once = op['patch']
        mocker.replace(op['endpoint'], op['method'], idx=op['idx'],
                       **_mocker_kwargs(pk, pv, once, op['endpoint'], op['method']))
        model.replace(op['endpoint'], op['method'], op['idx'], pk, pv, once)
    else:
        mocker.remove(op['endpoint'], op['method'])
        model.remove(op['endpoint'], op['method'])


def _judge_reply(w: World, exp: Dict[str, Any], got: Tuple[str, Any], ctx: Dict[str, Any], what: str) -> None:
    """got: ('response', Response) | ('value', v) | ('raise', exc)"""
    if exp['kind'] == 'callback_raises':
        from ..ref.mocker import CallbackTrouble
        if got[0] != 'raise' or not isinstance(got[1], CallbackTrouble):
            w.violate('C20.reply', f'{what}: the callback patch #{exp.get("patch")} raises; expected its exception at the '
                      f'caller, got {_d(got)}', **ctx)
        return
    if exp['kind'] == 'refused':
        if got[0] != 'raise' or not isinstance(got[1], ConnectionRefusedError):
            w.violate('C20.unpatched_endpoint', f'{what}: an endpoint without patches (passthrough off) must be refused, '
                      f'got {_d(got)}', **ctx)
        return
    if exp['kind'] == 'passthrough':
        ok = got[0] != 'raise' and (got[1] if got[0] == 'value' else _result_of(got[1])) is not None
        val = got[1] if got[0] == 'value' else (_result_of(got[1]) if got[0] == 'response' else None)
        if got[0] == 'raise' or not (isinstance(val, str) and val.startswith('real:')):
            w.violate('C20.unpatched_endpoint', f'{what}: an endpoint without patches (passthrough on) must reach the '
                      f'real transport, got {_d(got)}', **ctx)
        return
    if got[0] == 'raise' and not isinstance(got[1], JsonRpcError):
        w.violate('C20.reply', f'{what}: {_d(got)}; expected {exp}', exc=type(got[1]).__name__, **ctx)
        return
    if got[0] == 'response':
        resp = got[1]
        if type(resp.id) is not type(exp['id']) or resp.id != exp['id']:
            w.violate('C20.reply_id', f'{what}: the reply carries id {resp.id!r}, the request id was {exp["id"]!r}',
                      request_id=exp['id'], **ctx)
        try:
            got = ('value', resp.result)
        except JsonRpcError as e:
            got = ('raise', e)
    if 'error' in exp:
        code, message = exp['error']
        if got[0] != 'raise' or got[1].code != code or (message is not None and got[1].message != message):
            w.violate('C20.reply', f'{what}: expected error {exp["error"]}, got {_d(got)}', **ctx)
    elif got[0] != 'value' or not R.json_equal(json.loads(json.dumps(got[1])), json.loads(json.dumps(exp['result']))):
        w.violate('C20.reply', f'{what}: expected result {exp["result"]!r} (patch #{exp.get("patch")}), got {_d(got)}', **ctx)


def _result_of(resp: Any) -> Any:
    try:
        return resp.result
    except JsonRpcError:
        return None


def _d(got: Tuple[str, Any]) -> str:
    if got[0] == 'raise':
        return f'raised {type(got[1]).__name__}: {str(got[1])[:60]}'
    return f'{got[0]} {got[1]!r}'[:120]


def _expected_for_request(model: MockerModel, op: Dict[str, Any]) -> List[Dict[str, Any]]:
    """Advance the model for one request; a list with one expectation per element (or one for the whole request)."""
    e = op['endpoint']
    if op['op'] == 'call':
        return [model.serve(e, op['method'], op['params'], op['id'])]
    if e not in model.patches:
        return [{'kind': 'passthrough' if model.passthrough else 'refused', 'whole': True}]
    out = []
    for el in op['elements']:
        if e not in model.patches:
            out.append({'kind': 'open'})
            continue
        out.append(model.serve(e, el['method'], el['params'], el['id']))
        if out[-1]['kind'] == 'callback_raises':
            break    # the exception ends the processing of the batch: later elements are not served
    return out


def _check_calls(w: World, mocker: PjRpcMocker, model: MockerModel, ctx: Dict[str, Any]) -> None:
    for e in ENDPOINTS:
        for me in METHODS + [UNPATCHED_METHOD]:
            want = model.calls.get(e, {}).get(me, [])
            stub = mocker.calls.get(e, {}).get(('2.0', me)) if e in mocker.calls else None
            got = [(tuple(c.args), dict(c.kwargs)) for c in stub.call_args_list] if stub is not None else []
            if got != want:
                w.violate('C20.calls', f'mocker.calls[{e!r}][("2.0", {me!r})] recorded {got}, the calls made were {want}',
                          **ctx)
                return


def _issue_sync(clients: Dict[str, Any], op: Dict[str, Any]) -> List[Tuple[str, Any]]:
    cl = clients[op['endpoint']]
    try:
        if op['op'] == 'call':
            params = op['params']
            if op['via'] == 'send':
                return [('response', cl.send(pjrpc.Request(op['method'], params or None, op['id'])))]
            cl.id_gen_impl = lambda: iter([op['id']])
            if isinstance(params, dict):
                return [('value', cl.call(op['method'], **params))]
            return [('value', cl.call(op['method'], *params))]
        breq = pjrpc.BatchRequest(*[pjrpc.Request(el['method'], el['params'] or None, el['id']) for el in op['elements']])
        resp = cl.batch.send(breq)
        return [('response', r) for r in resp]
    except Exception as e:  # noqa: BLE001
        return [('raise', e)]


def fam_sync(w: World) -> None:
    ch = w.ch
    passthrough = bool(ch.draw(2, 'passthrough'))
    pre = MockerModel(passthrough)
    pre.reentrant = True      # the synchronous transport lets a callback call the client again: see the same queues
    ops = _draw_ops(ch, 1 + ch.draw(10, 'n_ops'), pre)
    w.scenario = {'passthrough': passthrough, 'ops': ops, 'variant': 'sync'}
    w.nontrivial = len(ops) >= 2
    ctx = {'variant': 'sync', 'passthrough': passthrough}
    MC.REAL_CALLS.clear()
    model = MockerModel(passthrough)
    model.reentrant = True
    clients = {e: MC.SimHttpClient(e) for e in ENDPOINTS + [UNPATCHED_ENDPOINT, SLASH_SIBLING]}
    def nested_call() -> Any:
        """The re-entering callback's nested call: same endpoint, same method, same client."""
        from ..ref.mocker import CallbackTrouble
        try:
            endpoint, method = ref_mocker.REENTER_TARGET[0]
            resp = clients[endpoint].send(pjrpc.Request(method, ['nested'], 'nested-id'))
        except ConnectionRefusedError:
            return 'refused'
        except CallbackTrouble:
            return 'callback_raises'
        if isinstance(resp.result if resp.is_success else None, str) and str(resp.result).startswith('real:'):
            return 'passthrough'
        return ['result', resp.result] if resp.is_success else ['error', resp.get_error().code]

    from ..ref import mocker as ref_mocker
    ref_mocker.REENTER_HOOK[0] = nested_call
    w.cleanup.append(lambda: ref_mocker.REENTER_HOOK.__setitem__(0, None))
    mocker = PjRpcMocker(target='pjsim.mockclient.SimHttpClient._request', passthrough=passthrough)
    mocker.start()
    try:
        for k, op in enumerate(ops):
            if op['op'] in ('add', 'replace', 'remove'):
                _apply_config(mocker, model, op)
                w.rec('mocker', 'config', op=op['op'], endpoint=op['endpoint'], method=op.get('method'))
                continue
            exps = _expected_for_request(model, op)
            gots = _issue_sync(clients, op)
            w.rec('mocker', 'request', op=op['op'], endpoint=op['endpoint'],
                  got=[g[0] if g[0] != 'raise' else type(g[1]).__name__ for g in gots])
            _judge_request(w, op, exps, gots, dict(ctx, op=op['op']), k)
        _check_calls(w, mocker, model, ctx)
    finally:
        mocker.stop()


def _judge_request(w: World, op: Dict[str, Any], exps: List[Dict[str, Any]], gots: List[Tuple[str, Any]],
                   ctx: Dict[str, Any], k: int) -> None:
    what = f'op {k} ({op["op"]} {op["endpoint"]})'
    if op['op'] == 'call' or exps[0].get('whole'):
        if exps[0].get('whole') and exps[0]['kind'] == 'passthrough':
            if any(g[0] == 'raise' for g in gots):
                w.violate('C20.unpatched_endpoint', f'{what}: passthrough batch failed: {_d(gots[0])}', **ctx)
            return
        _judge_reply(w, exps[0], gots[0], ctx, what)
        return
    if any(e['kind'] == 'callback_raises' for e in exps):
        from ..ref.mocker import CallbackTrouble
        if len(gots) != 1 or gots[0][0] != 'raise' or not isinstance(gots[0][1], CallbackTrouble):
            w.violate('C20.reply', f'{what}: a callback patch raises for one element; expected its exception at the '
                      f'caller, got {_d(gots[0])}', **ctx)
        return
    if len(gots) == 1 and gots[0][0] == 'raise':
        w.violate('C20.reply', f'{what}: batch failed: {_d(gots[0])}', exc=type(gots[0][1]).__name__, **ctx)
        return
    by_id = {(type(g[1].id).__name__, g[1].id): g for g in gots if g[0] == 'response'}
    for el, exp in zip(op['elements'], exps):
        if exp['kind'] == 'open':
            w.probe('batch_after_exhaustion_open')
            continue
        g = by_id.get((type(el['id']).__name__, el['id']))
        if g is None:
            w.violate('C20.reply_id', f'{what}: no reply carries the id {el["id"]!r} of element {el["method"]}',
                      request_id=el['id'], **ctx)
            continue
        _judge_reply(w, exp, g, ctx, what + f' element {el["method"]}')


def fam_async(w: World) -> None:
    ch = w.ch
    passthrough = bool(ch.draw(2, 'passthrough'))
    pre_model = MockerModel(passthrough)
    setup = [op for op in _draw_ops(ch, 2 + ch.draw(4, 'n_setup'), pre_model) if op['op'] in ('add', 'replace', 'remove')]
    n_tasks = 2 + ch.draw(2, 'n_tasks')
    scripts: List[List[Dict[str, Any]]] = []
    for t in range(n_tasks):
        calls = [op for op in _draw_ops(ch, 1 + ch.draw(3, 'n_calls'), MockerModel(passthrough)) if op['op'] in ('call', 'batch')]
        for op in calls:
            op['delay'] = ch.choice(gen.PAUSES, 'delay')
        scripts.append(calls)
    w.scenario = {'passthrough': passthrough, 'setup': setup, 'tasks': scripts, 'variant': 'async'}
    w.nontrivial = True
    ctx = {'variant': 'async', 'passthrough': passthrough}
    MC.REAL_CALLS.clear()
    loop = ensure_loop(w)
    model = MockerModel(passthrough)
    mocker = PjRpcMocker(target='pjsim.mockclient.SimHttpAsyncClient._request', passthrough=passthrough)
    mocker.start()
    arrivals: List[Tuple[int, int]] = []     # (task, op index) in arrival order
    results: Dict[Tuple[int, int], List[Tuple[str, Any]]] = {}
    try:
        for op in setup:
            _apply_config(mocker, model, op)

        class Arrival(pjrpc.client.Tracer):
            def __init__(self, key_ref: List[Any]):
                self.key_ref = key_ref

            def on_request_begin(self, trace_context: Any, request: Any) -> None:
                arrivals.append(self.key_ref[0])
                w.rec('mocker', 'arrival', task=self.key_ref[0][0], op=self.key_ref[0][1])

        async def caller(t: int, script: List[Dict[str, Any]]) -> None:
            key_ref: List[Any] = [None]
            clients = {e: MC.SimHttpAsyncClient(e, tracers=[Arrival(key_ref)]) for e in ENDPOINTS + [UNPATCHED_ENDPOINT, SLASH_SIBLING]}
            for k, op in enumerate(script):
                await asyncio.sleep(op['delay'])
                key_ref[0] = (t, k)
                cl = clients[op['endpoint']]
                try:
                    if op['op'] == 'call':
                        resp = await cl.send(pjrpc.Request(op['method'], op['params'] or None, op['id']))
                        results[(t, k)] = [('response', resp)]
                    else:
                        breq = pjrpc.BatchRequest(*[pjrpc.Request(el['method'], el['params'] or None, el['id'])
                                                    for el in op['elements']])
                        resp = await cl.batch.send(breq)
                        results[(t, k)] = [('response', r) for r in resp]
                except Exception as e:  # noqa: BLE001
                    results[(t, k)] = [('raise', e)]

        async def main() -> None:
            await asyncio.gather(*(caller(t, s) for t, s in enumerate(scripts)))

        loop.run_until_complete(main())
        w.sig_parts = list(arrivals)
        if len({a[0] for a in arrivals[:3]}) > 1:
            w.probe('interleaved_callers')
        for (t, k) in arrivals:
            op = scripts[t][k]
            exps = _expected_for_request(model, op)
            _judge_request(w, op, exps, results.get((t, k), [('raise', RuntimeError('no result'))]),
                           dict(ctx, op=op['op']), k)
        _check_calls(w, mocker, model, ctx)
    finally:
        mocker.stop()


FAMILIES = {'mocker.sync': fam_sync, 'mocker.async': fam_async}
PLAN = {
    'quick': {'mocker.sync': 35000, 'mocker.async': 21000},
    'thorough': {'mocker.sync': 50000, 'mocker.async': 30000},
}
CHUNK = 40
THOROUGH_BUDGET_S = 600
