"""C10 - concurrent batches cannot mix up responses; sequential mode is sequential.

The asynchronous dispatcher serves batches whose methods, middlewares and error handlers suspend at seeded
points; the SimLoop decides every interleaving (FIFO, random pick, PCT).  The reply must be the reference
reply (request order, own id, own result / error), every method must have run exactly once, and with
concurrent_batch=False the in-flight intervals of the elements must be pairwise disjoint and in request order.
"""
from __future__ import annotations

import json
from math import comb
from types import SimpleNamespace
from typing import Any, Dict, List

from .. import gen
from .. import serverscn as S
from ..ref import chain as C
from ..world import World
from . import c12

PROP = 'C10'
LEVEL = 'exploration'
REAL = ['pjrpc/server/dispatcher.py (AsyncDispatcher.dispatch batch path, _handle_request, middleware chain)',
        'pjrpc/common/v20.py', 'pjrpc/server/validators/base.py', 'asyncio.gather / Task (CPython)']
STUB = ['event loop (SimLoop: virtual time, seeded pick among ready callbacks)', 'the peer (generated batches)']
ASSUMPTIONS = ['interleavings are sampled (three scheduler policies x seeded suspension delays), not enumerated',
               'in-flight interval of an element = first to last record of its handler chain, by global sequence number']


def _batch(ch: Any, n: int) -> Dict[str, Any]:
    ids = ch.shuffle(S.ELEMENT_IDS, 'ids')
    els, kinds = [], []
    for k in range(n):
        notification = ch.flag(1, 4, 'el.notification')
        for _ in range(6):
            el, kind = S.gen_element(ch, f't{k}', ids[k], notification, True, reentrant=True)
            if kind != 'invalid' and C._tok(el.get('params', [])) is not None:
                break
        else:
            el, kind = {'jsonrpc': '2.0', 'method': 'echo', 'params': [f't{k}', k], 'id': ids[k]}, 'ok'
        els.append(el)
        kinds.append(kind)
    return {'text': json.dumps(els), 'doc': els, 'kinds': kinds, 'shape': 'batch'}


def fam_batch(w: World) -> None:
    ch = w.ch
    n = 1 + ch.draw(4, 'n')
    info = _batch(ch, n)
    cfg = S.draw_config(ch, n, middlewares=True, handlers=True, force_async=True)
    cfg['max_batch_size'] = None
    concurrent = not ch.flag(1, 3, 'sequential')
    cfg['concurrent_batch'] = concurrent
    # up to 2 suspension points each in method, middleware and handler, with seeded delays
    for k in range(n):
        tok = f't{k}'
        w.plan[('method', tok)] = [ch.choice(gen.PAUSES, 'pause.d') for _ in range(ch.draw(3, 'pause.method'))]
        for i in range(len(cfg['middlewares'])):
            w.plan[('mw', i, tok)] = [ch.choice(gen.PAUSES, 'pause.d') for _ in range(ch.draw(2, 'pause.mw'))]
            w.plan[('mw.post', i, tok)] = [ch.choice(gen.PAUSES, 'pause.d') for _ in range(ch.draw(2, 'pause.mw'))]
        for hs in cfg['handlers'].values():
            for hid, _ in hs:
                w.plan[('eh', hid, tok)] = [ch.choice(gen.PAUSES, 'pause.d') for _ in range(ch.draw(3, 'pause.eh'))]
    w.scenario = {'cfg': cfg, 'text': info['text'], 'kinds': info['kinds']}
    w.nontrivial = True
    ctx = {'concurrent_batch': concurrent, 'n': n, 'mws': list(cfg['middlewares'])}
    sut = S.ServerUnderTest(w, cfg, extra_kwargs={'concurrent_batch': concurrent}, context=SimpleNamespace(mark='ctx-mark'))
    ctx['policy'] = sut.loop.policy if sut.loop else None
    before = len(w.history)
    outcome = sut.deliver(info['text'])
    recs = [r for r in w.history[before:] if r['node'] == sut.node_name]
    doc = S.check_wellformed(w, PROP, info['text'], outcome, ctx)
    if outcome[0] == 'raise':
        return
    # reply in request order with own ids / results, each method exactly once: the reference chain says it all
    c12.judge_chain(w, PROP, sut, info, outcome, doc, recs, ctx)
    # in-flight intervals
    spans = []
    for k in range(n):
        seqs = [r['seq'] for r in recs if r.get('tok') == f't{k}'
                and r['kind'] in ('mw.enter', 'mw.exit', 'mw.step', 'eh.call', 'eh.step', 'method.enter',
                                  'method.step', 'method.exit')]
        if seqs:
            spans.append((k, min(seqs), max(seqs)))
    overlaps = sum(1 for a in range(len(spans)) for b in range(a + 1, len(spans))
                   if spans[a][1] < spans[b][2] and spans[b][1] < spans[a][2])
    if overlaps:
        w.probe('elements_overlapped')
    order = [k for k, lo, hi in sorted(spans, key=lambda s: s[2])]
    if order != sorted(order):
        w.probe('completion_out_of_request_order')
    if not concurrent:
        w.probe('sequential_mode')
        for a in range(len(spans) - 1):
            ka, lo_a, hi_a = spans[a]
            kb, lo_b, hi_b = spans[a + 1]
            if not hi_a < lo_b:
                w.violate('C10.sequential', f'concurrent_batch=False: element {kb} was in flight (from seq {lo_b}) before '
                          f'element {ka} finished (seq {hi_a})', **ctx)
                break
    w.sig_parts = [(r.get('tok'), r['kind']) for r in recs if r.get('tok') is not None
                   and r['kind'] in ('mw.enter', 'mw.exit', 'mw.step', 'eh.call', 'eh.step', 'method.enter',
                                     'method.step', 'method.exit')]


def fam_duplicates(w: World) -> None:
    """A batch in which the same notification (equal method and parameters, no id) occurs two or three times among
    other elements: every occurrence is an element of its own and runs its method once; the responses of the calls stay
    in request order.  Judged against the reference dispatcher (reply and multiset of executions)."""
    ch = w.ch
    n_other = ch.draw(3, 'dup.others')
    ids = ch.shuffle(S.ELEMENT_IDS, 'ids')
    els = []
    for k in range(n_other):
        el, kind = S.gen_element(ch, f't{k}', ids[k], ch.flag(1, 4, 'el.notification'), True)
        els.append(el)
    twin = {'jsonrpc': '2.0', 'method': ch.choice(['none', 'echo', 'slow', 'fail_exc'], 'dup.method'), 'params': ['dup']}
    if twin['method'] == 'fail_exc':
        twin['params'] = ['dup', 'value']
    copies = 2 + ch.draw(2, 'dup.copies')
    for _ in range(copies):
        els.insert(ch.draw(len(els) + 1, 'dup.pos'), json.loads(json.dumps(twin)))
    text = json.dumps(els)
    cfg = S.draw_config(ch, len(els), force_async=True)
    cfg['max_batch_size'] = None
    cfg['concurrent_batch'] = not ch.flag(1, 3, 'sequential')
    S.plan_pauses(w, cfg, n_other)
    w.plan[('method', 'dup')] = [ch.choice(gen.PAUSES, 'pause.d') for _ in range(ch.draw(3, 'pause.method'))]
    w.scenario = {'cfg': cfg, 'text': text, 'copies': copies}
    w.nontrivial = True
    sut = S.ServerUnderTest(w, cfg, extra_kwargs={'concurrent_batch': cfg['concurrent_batch']})
    ctx = {'concurrent_batch': cfg['concurrent_batch'], 'n': len(els), 'copies': copies, 'family': 'duplicates'}
    S.judge_delivery(w, PROP, sut, text, ('wellformed', 'reference'), ctx)


def evidence_extra(total: Dict[str, Any]) -> Dict[str, Any]:
    # interleavings of 2 elements with s atomic steps each = C(2s, s); reported for orientation only
    return {'interleavings_possible_examples': {f'2 elements x {s} steps': comb(2 * s, s) for s in (2, 3, 5)},
            'note': 'distinct_interleavings counts distinct orders of (element, record kind) events reached'}


def systematic(tier: str):
    """Every (batch size, sequential flag, scheduler policy) combination, several seeds each."""
    reps = 40 if tier == 'quick' else 400
    for n in range(4):
        for seq in (0, 2):            # flag(1, 3): raw 2 -> sequential
            for pol in (0, 2, 5, 7):  # weighted [2, 3, 2, 1] -> fifo, random, pct, lifo
                for _ in range(reps):
                    yield {'n': [n], 'sequential': [seq], 'sched.policy': [pol]}


FAMILIES = {'async.batch': fam_batch, 'async.duplicates': fam_duplicates}
SYSTEMATIC = {'async.batch': systematic}
PLAN = {
    'quick': {'async.batch': 84000, 'async.duplicates': 8000},
    'thorough': {'async.batch': 120000, 'async.duplicates': 24000},
}
THOROUGH_BUDGET_S = 600
