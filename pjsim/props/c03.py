"""C03 - failures map to JSON-RPC 2.0 error codes; application errors pass verbatim.

Fault enumeration at two seams: the *callee* (every failure kind a method can exhibit, at every batch
position, as call and as notification) and the *wire* (corruption of the request text in flight).  The reply
is compared with the reference error mapping, and the response text is searched for the marker strings and
exception type names that must never leak.
"""
from __future__ import annotations

import itertools
import json
from typing import Any, Dict, Iterable, List

from .. import gen
from .. import serverscn as S
from ..ref import jsonrpc as R
from ..service import DATA_MODES, EXC_KINDS
from ..world import World

PROP = 'C03'
LEVEL = 'fault_enumeration'
REAL = ['pjrpc/server/dispatcher.py', 'pjrpc/common/exceptions.py', 'pjrpc/common/v20.py',
        'pjrpc/server/validators/base.py']
STUB = ['the peer (generated / corrupted request texts)', 'event loop (SimLoop) for the async dispatcher',
        'every clock of the time module (virtual clock)']
ASSUMPTIONS = ['texts containing an integer literal beyond the interpreter limit are valid JSON that Python cannot '
               'load: only C01 applies to them (open zone of the reference)',
               'data members of library-generated errors are not modelled (free text)']

CODES = [0, 1, -1, 2001, -32700, -32600, -32601, -32602, -32603, -32000, -32050, -32099, 2 ** 53 + 1]
MESSAGES = ['m', '', 'a b', 'é☃', 'x' * 40]
DATAS: List[Any] = [None, 0, False, '', [], {}, [1, 'a', None], {'k': {'n': [1.5]}}, 'text', 1.5, -7]
FAIL_KINDS = ['proto', 'exc', 'typed']
RESOURCES: List[Any] = ['r1', 7, None]
EXC_KIND_LIST = sorted(EXC_KINDS)


def _element(kind: str, k: int, arg: Dict[str, Any], call: bool, id_: Any) -> Dict[str, Any]:
    tok = f't{k}'
    if kind == 'proto':
        params: Any = [tok, arg['code'], arg['message']]
        if arg['data_mode'] != 'absent':
            params += [arg['data_mode'], arg['data']]
        el = {'jsonrpc': '2.0', 'method': 'fail_proto', 'params': params}
    elif kind == 'exc':
        el = {'jsonrpc': '2.0', 'method': 'fail_exc', 'params': {'tok': tok, 'kind': arg['exc']}}
    elif kind == 'typed':
        # an application error class with a constructor of its own (raised as ResourceNotFound(resource))
        el = {'jsonrpc': '2.0', 'method': 'fail_typed', 'params': [tok, arg['resource']]}
    else:
        el = {'jsonrpc': '2.0', 'method': 'echo', 'params': [tok, k]}
    if call:
        el['id'] = id_
    return el


def fam_callee_faults(w: World) -> None:
    """Draw order is fixed so that SYSTEMATIC prefixes enumerate (kind, code/exc, position, call?, length)."""
    ch = w.ch
    kind = FAIL_KINDS[ch.draw(3, 'sys.kind')]
    arg: Dict[str, Any] = {}
    if kind == 'proto':
        arg['code'] = CODES[ch.draw(len(CODES), 'sys.code')]
    elif kind == 'typed':
        arg['resource'] = RESOURCES[ch.draw(len(RESOURCES), 'sys.resource')]
        arg['code'] = 2003
    else:
        arg['exc'] = EXC_KIND_LIST[ch.draw(len(EXC_KIND_LIST), 'sys.exc')]
    length = 1 + ch.draw(4, 'sys.length')           # 1 = single request (not a batch)
    pos = ch.draw(length, 'sys.position')
    call = bool(1 - ch.draw(2, 'sys.notification'))
    as_batch = length > 1 or bool(ch.draw(2, 'sys.batch_of_one'))
    if kind == 'proto':
        arg['message'] = ch.choice(MESSAGES, 'proto.message')
        arg['data_mode'] = ch.choice(DATA_MODES, 'proto.data_mode')
        arg['data'] = ch.choice(DATAS, 'proto.data') if arg['data_mode'] == 'value' else None
    ids = ch.shuffle(S.ELEMENT_IDS, 'ids')
    els = []
    for k in range(length):
        if k == pos:
            els.append(_element(kind, k, arg, call, ids[k]))
        else:
            other_call = not ch.flag(1, 4, 'other.notification')
            other_kind = ['ok', 'proto', 'exc', 'typed'][ch.weighted([4, 1, 1, 1], 'other.kind')]
            other_arg = {'code': ch.choice(CODES, 'other.code'), 'message': 'other', 'data_mode': 'absent', 'data': None,
                         'exc': ch.choice(EXC_KIND_LIST, 'other.exc'), 'resource': 'other'}
            els.append(_element(other_kind, k, other_arg, other_call, ids[k]))
    doc: Any = els if as_batch else els[0]
    cfg = S.draw_config(ch, length)
    if cfg['max_batch_size'] not in (None, 0) and cfg['max_batch_size'] < length:
        cfg['max_batch_size'] = None
    if ch.flag(1, 2, 'identity_handlers'):
        # error handlers that return the error they were given: the reply must be exactly the one without handlers
        code = arg.get('code') if kind in ('proto', 'typed') else R.SERVER_ERROR
        cfg['handlers'] = {'none': [('h1', 'identity')], str(code): [('h2', 'identity')]}
    S.plan_pauses(w, cfg, length)
    text = json.dumps(doc)
    w.scenario = {'cfg': cfg, 'text': text, 'fault': dict(arg, kind=kind, position=pos, call=call)}
    w.fault('method_raises_' + kind)
    w.nontrivial = True
    ctx = {'async': cfg['async'], 'fault': kind, 'call': call, 'batch': as_batch, 'code': arg.get('code'),
           'message_empty': arg.get('message') == '', 'exc': arg.get('exc')}
    sut = S.ServerUnderTest(w, cfg)
    S.judge_delivery(w, PROP, sut, text, ('reference', 'leak'), ctx)


def fam_wire_faults(w: World) -> None:
    """One to three (possibly corrupted) documents, one after another, to one long-lived dispatcher."""
    ch = w.ch
    n_deliveries = 1 + ch.draw(3, 'deliveries')
    infos = [S.gen_document(ch, exotic=True, allow_junk=True, tok_prefix=f'd{d}_' if d else '') for d in range(n_deliveries)]
    n = max((len(i['doc']) if isinstance(i['doc'], list) else 1) for i in infos)
    cfg = S.draw_config(ch, n)
    texts = []
    for d, info in enumerate(infos):
        S.plan_pauses(w, cfg, n + 1, tok_prefix=f'd{d}_' if d else '')
        text = info['text']
        kinds = []
        if info['shape'] in ('single', 'batch') and ch.flag(3, 4, 'corrupt'):
            new, kind = S.corrupt_text(ch, text)
            if new != text:
                w.fault(kind)
                kinds.append(kind)
            text = new
        texts.append((text, kinds, info))
    w.scenario = {'cfg': cfg, 'texts': [t if len(t) < 300 else t[:150] + f'...({len(t)} chars)' for t, _, _ in texts],
                  'faults': [k for _, k, _ in texts]}
    w.nontrivial = True
    sut = S.ServerUnderTest(w, cfg)
    for d, (text, kinds, info) in enumerate(texts):
        if S.outside_quantifier(w, text):
            continue
        ctx = {'async': cfg['async'], 'shape': info['shape'], 'faults': kinds, 'max_batch_size': cfg['max_batch_size'],
               'delivery': d}
        S.judge_delivery(w, PROP, sut, text, ('reference', 'leak'), ctx)
        if w.violations:
            return


def systematic_callee(tier: str) -> Iterable[List[int]]:
    """(kind x code|exc x length x position x call/notification): every single-fault placement."""
    max_len = 2 if tier == 'quick' else 4
    for kind in range(3):
        n_arg = len(CODES) if kind == 0 else len(EXC_KIND_LIST) if kind == 1 else len(RESOURCES)
        for a in range(n_arg):
            for length in range(max_len):
                for pos in range(length + 1):
                    for notif in range(2):
                        for b1 in (range(2) if length == 0 else [0]):
                            # draws of radix 1 are not consumed: position when length == 1; batch_of_one when length > 1
                            prefix = [kind, a, length]
                            if length + 1 > 1:
                                prefix.append(pos)
                            prefix.append(notif)
                            if length == 0:
                                prefix.append(b1)
                            yield prefix


FAMILIES = {'callee.faults': fam_callee_faults, 'wire.faults': fam_wire_faults}
SYSTEMATIC = {'callee.faults': systematic_callee}
PLAN = {
    'quick': {'callee.faults': 48000, 'wire.faults': 64000},
    'thorough': {'callee.faults': 60000, 'wire.faults': 60000},
}
THOROUGH_BUDGET_S = 600
RULE = ('systematic part: every single callee-fault placement (failure kind x protocol code | exception type x batch '
        'length x position x call/notification) as a forced choice prefix, the rest of each run seeded; random part: '
        'seeded runs of callee faults and of wire corruption; distinct = distinct history digest; non-trivial = a '
        'fault was injected (method raising, or a wire fault that changed the text) or the document is a batch')
