"""C07 - calling through client and server equals calling the function, in any notation.

Both halves of pjrpc, real code, connected by a fault-free SimNet (delays only).  The same logical call
list is issued through two notations; every wire document is checked against the reference request
document, every caller outcome against the direct invocation of the function's body.
"""
from __future__ import annotations

import json
from typing import Any, Callable, Dict, List, Optional, Tuple

import pjrpc
from pjrpc.common import UNSET
from pjrpc.common.exceptions import JsonRpcError, JsonRpcErrorMeta

from .. import gen
from ..ref import jsonrpc as R
from ..service import direct, jnorm
from ..stack import ID_GENERATORS, Stack, seed_generators
from ..world import World

PROP = 'C07'
LEVEL = 'exploration'
REAL = ['pjrpc/client/client.py (call, notify, send, proxy, batch notations, _send, traced, retried, _relate)',
        'pjrpc/common/v20.py', 'pjrpc/common/exceptions.py', 'pjrpc/common/common.py (JSONEncoder)',
        'pjrpc/common/generators.py', 'pjrpc/server/dispatcher.py (Dispatcher, AsyncDispatcher, MethodRegistry)',
        'pjrpc/server/validators/base.py']
STUB = ['transport (SimNet at the _request seam instead of requests/aiohttp/httpx back-ends)',
        'entropy behind generators.random / uuid4 (seeded)', 'event loop (SimLoop, virtual time)']
ASSUMPTIONS = ['the transport returns the server reply text unchanged (also for notifications: the body the server '
               'produced, or None when it produced none)',
               'registered functions are the instrumented wrappers of pjsim.service; direct invocation means calling '
               'their bodies']

class ClientSideError(JsonRpcError):
    """A client-supplied base class for errors whose code has no registered class (it registers nothing itself)."""


ERROR_CLASSES = {'base': JsonRpcError, 'custom': ClientSideError}

SINGLE_CALL_NOTATIONS = ['call', 'dunder', 'proxy', 'send']
SINGLE_NOTIFY_NOTATIONS = ['notify', 'send']
BATCH_NOTATIONS = ['add', 'dunder', 'proxy', 'send', 'getitem']


def _expected_class(code: int, base: type) -> type:
    return JsonRpcErrorMeta.__errors_mapping__.get(code, base)


def _check_doc(w: World, text: str, calls: List[gen.LogicalCall], batch: bool, op: str) -> Optional[List[Any]]:
    """Check one wire document against the reference request document; return the ids used (None for notifications)."""
    try:
        doc = json.loads(text)
    except ValueError:
        w.violate('C07.wire.doc', f'request text is not JSON: {text[:80]!r}', op=op)
        return None
    elements = doc if batch else [doc]
    if batch and not isinstance(doc, list):
        w.violate('C07.wire.doc', 'batch operation did not put a JSON array on the wire', op=op)
        return None
    if not batch and not isinstance(doc, dict):
        w.violate('C07.wire.doc', 'single operation did not put a JSON object on the wire', op=op)
        return None
    if len(elements) != len(calls):
        w.violate('C07.wire.doc', f'{len(elements)} elements on the wire for {len(calls)} calls', op=op)
        return None
    ids: List[Any] = []
    for k, (el, c) in enumerate(zip(elements, calls)):
        if not R.valid_request(el):
            w.violate('C07.wire.doc', f'element {k} is not a valid request object: {json.dumps(el)[:100]}', op=op)
            return None
        if el['method'] != c.method:
            w.violate('C07.wire.doc', f'element {k}: method {el["method"]!r} instead of {c.method!r}', op=op)
        if c.notification:
            if 'id' in el:
                w.violate('C07.wire.id', f'element {k}: a notification carries an id member', op=op)
            ids.append(None)
        else:
            if 'id' not in el or el['id'] is None:
                w.violate('C07.wire.id', f'element {k}: a call carries no id', op=op)
                ids.append(None)
            else:
                ids.append(el['id'])
        want = jnorm(list(c.args)) if c.args else (jnorm(c.kwargs) if c.kwargs else None)
        if want is None:
            if 'params' in el and el['params'] not in ([], {}):
                w.violate('C07.wire.params', f'element {k}: params {el["params"]!r} for a call without arguments', op=op)
        elif 'params' not in el or not R.json_equal(el['params'], want):
            w.violate('C07.wire.params', f'element {k}: params {el.get("params")!r} instead of {want!r}', op=op)
    call_ids = [i for i in ids if i is not None]
    for a in range(len(call_ids)):
        for b in range(a + 1, len(call_ids)):
            if type(call_ids[a]) is type(call_ids[b]) and call_ids[a] == call_ids[b]:
                w.violate('C07.wire.id', f'two calls of one batch share the id {call_ids[a]!r}', op=op)
    return ids


def _outcome_of(fn: Callable[[], Any]) -> Tuple[Any, ...]:
    """('value', v) | ('error', exc) | ('raise', exc)"""
    try:
        return ('value', fn())
    except JsonRpcError as e:
        return ('error', e)
    except Exception as e:  # noqa: BLE001
        return ('raise', e)


def _check_call_outcome(w: World, got: Tuple[Any, ...], c: gen.LogicalCall, error_cls: type, op: str, ctx: Dict[str, Any]) -> None:
    exp = direct(c.method, c.args, c.kwargs)
    if got[0] == 'raise':
        e = got[1]
        w.violate('C07.outcome.exception', f'{op}: {type(e).__name__}: {e} (expected outcome {exp[:2]!r})',
                  exc=type(e).__name__, **ctx)
        return
    if exp[0] == 'ok':
        if got[0] != 'value':
            w.violate('C07.outcome.value', f'{op}: raised {got[1]!r}, direct call returns {exp[1]!r}', **ctx)
        elif not R.json_equal(jnorm(got[1]), exp[1]) or not R.json_equal(got[1], exp[1]):
            w.violate('C07.outcome.value', f'{op}: got {got[1]!r}, direct call returns {exp[1]!r}', **ctx)
        return
    if exp[0] == 'err':
        code, message, data = exp[1], exp[2], exp[3]
    else:
        code, message, data = R.SERVER_ERROR, None, UNSET
    if got[0] != 'error':
        w.violate('C07.outcome.error', f'{op}: returned {got[1]!r}, the function raises code {code}', **ctx)
        return
    e = got[1]
    cls = _expected_class(code, error_cls)
    if not isinstance(e, cls):
        w.violate('C07.outcome.error_class', f'{op}: {type(e).__name__} is not an instance of {cls.__name__} '
                  f'(class registered for code {code})', **ctx)
    if e.code != code or type(e.code) is not type(code):
        w.violate('C07.outcome.error', f'{op}: code {e.code!r} instead of {code!r}', **ctx)
    if message is not None and e.message != message:
        w.violate('C07.outcome.error', f'{op}: message {e.message!r} instead of {message!r}', **ctx)
    if (e.data is UNSET) != (data is UNSET) or (data is not UNSET and not R.json_equal(e.data, data)):
        w.violate('C07.outcome.error', f'{op}: data {e.data!r} instead of {data!r}', **ctx)


def _check_executions(w: World, st: Stack, calls: List[gen.LogicalCall], op: str, ctx: Dict[str, Any]) -> None:
    recs = [r for r in w.history if r['node'] == st.server.node and r['kind'] == 'method.enter']
    want = sorted((c.method, c.tok) for c in calls)
    got = sorted((r['method'], r['tok']) for r in recs)
    if want != got:
        w.violate('C07.executions', f'{op}: executed {got}, expected exactly {want}', **ctx)


# --- issuing operations ------------------------------------------------------------------------------------------
def _issue_single(st: Stack, c: gen.LogicalCall, notation: str, hand_id: Any) -> Tuple[Any, ...]:
    cl = st.client
    if c.notification:
        if notation == 'notify':
            return _outcome_of(lambda: st.run(lambda: cl.notify(c.method, *c.args, **c.kwargs)))
        req = pjrpc.Request(c.method, list(c.args) or dict(c.kwargs) or None, None)
        return _outcome_of(lambda: st.run(lambda: cl.send(req)))
    if notation == 'call':
        return _outcome_of(lambda: st.run(lambda: cl.call(c.method, *c.args, **c.kwargs)))
    if notation == 'dunder':
        return _outcome_of(lambda: st.run(lambda: cl(c.method, *c.args, **c.kwargs)))
    if notation == 'proxy':
        return _outcome_of(lambda: st.run(lambda: getattr(cl.proxy, c.method)(*c.args, **c.kwargs)))
    req = pjrpc.Request(c.method, list(c.args) or dict(c.kwargs) or None, hand_id)

    def via_send() -> Any:
        resp = st.run(lambda: cl.send(req))
        if resp is None:
            raise AssertionError('send returned None for a call')
        if resp.related is not req:
            raise AssertionError('response.related is not the request that was sent')
        return resp.result
    return _outcome_of(via_send)


BATCH_BUILDS = ['ctor', 'lenient', 'append', 'extend', 'lenient_extend']


def _issue_batch(st: Stack, calls: List[gen.LogicalCall], notation: str, hand_ids: List[Any],
                 build: str = 'ctor') -> Tuple[Any, ...]:
    """Returns ('tuple', value-or-None) | ('error', e) | ('raise', e) | ('responses', BatchResponse|None, requests)"""
    cl = st.client
    b = cl.batch
    if notation == 'send':
        reqs = [pjrpc.Request(c.method, list(c.args) or dict(c.kwargs) or None, None if c.notification else i)
                for c, i in zip(calls, hand_ids)]
        # the ways a caller can put a batch together by hand (the ids are unique, so the strict flag changes nothing)
        if build == 'ctor':
            breq = pjrpc.BatchRequest(*reqs)
        elif build == 'lenient':
            breq = pjrpc.BatchRequest(*reqs, strict=False)
        elif build == 'append':
            breq = pjrpc.BatchRequest()
            for r in reqs:
                breq.append(r)
        elif build == 'extend':
            breq = pjrpc.BatchRequest(*reqs[:1])
            breq.extend(reqs[1:])
        else:
            breq = pjrpc.BatchRequest(strict=False)
            breq.extend(reqs)
        try:
            resp = st.run(lambda: b.send(breq))
        except JsonRpcError as e:
            return ('error', e)
        except Exception as e:  # noqa: BLE001
            return ('raise', e)
        return ('responses', resp, reqs)
    if notation == 'getitem':
        items = [(c.method, *c.args) for c in calls]
        return _tuple_outcome(lambda: st.run(lambda: b[items]))
    if notation == 'add_getitem':
        # the first calls are queued with add / notify, the batch is completed and sent with the bracket notation
        split = next(k for k in range(len(calls)) if all(not c.kwargs and not c.notification for c in calls[k:]))
        split = max(split, min(1, len(calls) - 1))
        for c in calls[:split]:
            if c.notification:
                b.notify(c.method, *c.args, **c.kwargs)
            else:
                b.add(c.method, *c.args, **c.kwargs)
        items = [(c.method, *c.args) for c in calls[split:]]
        return _tuple_outcome(lambda: st.run(lambda: b[items]))
    if notation == 'proxy':
        p = b.proxy
        for c in calls:
            if c.notification:
                b.notify(c.method, *c.args, **c.kwargs)
            else:
                getattr(p, c.method)(*c.args, **c.kwargs)
        return _tuple_outcome(lambda: st.run(lambda: p()))
    for c in calls:
        if c.notification:
            b.notify(c.method, *c.args, **c.kwargs)
        elif notation == 'dunder':
            b(c.method, *c.args, **c.kwargs)
        else:
            b.add(c.method, *c.args, **c.kwargs)
    return _tuple_outcome(lambda: st.run(lambda: b.call()))


def _tuple_outcome(fn: Callable[[], Any]) -> Tuple[Any, ...]:
    try:
        return ('tuple', fn())
    except JsonRpcError as e:
        return ('error', e)
    except Exception as e:  # noqa: BLE001
        return ('raise', e)


# --- scenario pieces ------------------------------------------------------------------------------------------------
def _config(w: World) -> Dict[str, Any]:
    ch = w.ch
    cfg = {
        'client_async': bool(ch.draw(2, 'cfg.client_async')),
        'server_async': bool(ch.draw(2, 'cfg.server_async')),
        'flavour': None,
        'id_gen': ['sequential', 'randint', 'random', 'uuid'][ch.weighted([6, 3, 3, 1], 'cfg.id_gen')],
        'strict': not ch.flag(1, 4, 'cfg.nonstrict'),
        'latency': [ch.choice(gen.PAUSES, 'cfg.pre'), ch.choice(gen.PAUSES, 'cfg.post')],
        'error_cls': 'custom' if ch.flag(1, 4, 'cfg.error_cls') else 'base',
        'client_hooks': ch.flag(1, 4, 'cfg.client_hooks'), 'server_hooks': ch.flag(1, 4, 'cfg.server_hooks'),
        'max_batch': ch.choice([None, None, 1, 2, 3, 4, 8], 'cfg.max_batch'),
    }
    if cfg['server_async']:
        cfg['flavour'] = ch.choice(['async', 'mixed', 'sync'], 'cfg.flavour')
    return cfg


def _client_kwargs(cfg: Dict[str, Any]) -> Dict[str, Any]:
    kw = {'id_gen_impl': ID_GENERATORS[cfg['id_gen']], 'strict': cfg['strict'], 'error_cls': ERROR_CLASSES[cfg['error_cls']]}
    if cfg.get('client_hooks'):
        from ..hooks import client_hooks
        kw.update(client_hooks())
    return kw


def _dispatcher_kwargs(cfg: Dict[str, Any], n: int = 1) -> Dict[str, Any]:
    kw: Dict[str, Any] = {}
    if cfg.get('server_hooks'):
        from ..hooks import server_hooks
        kw.update(server_hooks())
    # a batch-size limit that the traffic of this run stays within: it must not be noticed
    if cfg.get('max_batch') is not None and cfg['max_batch'] >= n:
        kw['max_batch_size'] = cfg['max_batch']
    return kw


def _stack(w: World, cfg: Dict[str, Any], suffix: str, n: int = 1) -> Stack:
    seed_generators(w)
    script = [{'pre': cfg['latency'][0], 'post': cfg['latency'][1]}] * 8
    return Stack(w, cfg['client_async'], cfg['server_async'], cfg['flavour'],
                 client_kwargs=_client_kwargs(cfg), dispatcher_kwargs=_dispatcher_kwargs(cfg, n),
                 script=script, suffix=suffix)


def _plan_pauses(w: World, calls: List[gen.LogicalCall]) -> None:
    for c in calls:
        n = w.ch.draw(3, 'pause.n')
        w.plan[('method', c.tok)] = [w.ch.choice(gen.PAUSES, 'pause.d') for _ in range(n)]


def fam_single(w: World) -> None:
    ch = w.ch
    cfg = _config(w)
    n = 1 + ch.draw(3, 'n_calls')
    calls = [gen.logical_call(ch, f't{k}', exotic=True, allow_single=True) for k in range(n)]
    _plan_pauses(w, calls)
    w.scenario = {'cfg': cfg, 'calls': [c.describe() for c in calls], 'notations': []}
    w.nontrivial = n >= 2 or any(c.method.startswith('fail') for c in calls)
    pairs = []
    for c in calls:
        notations = SINGLE_NOTIFY_NOTATIONS if c.notification else SINGLE_CALL_NOTATIONS
        a = ch.draw(len(notations), 'notation')
        b = (a + 1 + ch.draw(len(notations) - 1, 'notation2')) % len(notations)
        pairs.append((notations[a], notations[b]))
    docs_by_notation: List[List[Any]] = []
    for rnd in range(2):
        st = _stack(w, cfg, suffix=str(rnd))
        docs: List[Any] = []
        used = []
        encode_failed = False
        for k, c in enumerate(calls):
            notation = pairs[k][rnd]
            used.append(notation)
            ctx = {'notation': notation, 'id_gen': cfg['id_gen'], 'method': c.method, 'kind': 'single',
                   'notification': c.notification, 'strict': cfg['strict']}
            op = f'{notation}({c.method})'
            before = len(st.net.sent)
            hand_id = ch.choice(gen.REQ_IDS, 'hand_id') if notation == 'send' and not c.notification else None
            got = _issue_single(st, c, notation, hand_id)
            sent = st.net.sent[before:]
            if got[0] == 'raise' and isinstance(got[1], TypeError) and not sent:
                w.violate('C07.wire.encode', f'{op}: request could not be encoded: {got[1]}',
                          exc='TypeError', **ctx)
                docs.append(None)
                encode_failed = True
                continue
            if len(sent) != 1:
                w.violate('C07.wire.count', f'{op}: {len(sent)} documents on the wire, expected exactly one', **ctx)
            if sent:
                ids = _check_doc(w, sent[0], [c], False, op)
                d = json.loads(sent[0])
                if isinstance(d, dict):
                    d.pop('id', None)
                docs.append(d)
                if hand_id is not None and ids and ids[0] != hand_id:
                    w.violate('C07.wire.id', f'{op}: hand-built id {hand_id!r} went out as {ids[0]!r}', **ctx)
            if c.notification:
                if got[0] != 'value' or got[1] is not None:
                    w.violate('C07.notification', f'{op}: a notification must return None and raise nothing, got '
                              f'{got[0]} {got[1]!r}', outcome=got[0],
                              exc=type(got[1]).__name__ if got[0] != 'value' else None, **ctx)
            else:
                _check_call_outcome(w, got, c, JsonRpcError, op, ctx)
        if not encode_failed:
            _check_executions(w, st, calls, 'single ops', {'kind': 'single', 'id_gen': cfg['id_gen']})
        docs_by_notation.append(docs)
        w.scenario['notations'].append(used)
    if docs_by_notation[0] != docs_by_notation[1] and None not in docs_by_notation[0] + docs_by_notation[1]:
        w.violate('C07.interchangeable', 'two notations for the same calls put different documents (up to ids) on '
                  f'the wire: {docs_by_notation[0]!r} vs {docs_by_notation[1]!r}', kind='single')


def fam_generations(w: World) -> None:
    """Several generations of client / dispatcher / service objects live one after another in one process: each is
    used, dropped and collected before the next is built (an application factory per test, a reloaded module, a plugin
    that is unloaded).  The registered functions of a generation are new objects, registered in a seeded order, so what
    an earlier generation left behind in process-wide places (the default validator, caches keyed by identity) meets
    other functions - possibly at the same addresses."""
    import gc
    from ..service import BODIES
    ch = w.ch
    cfg = _config(w)
    n_gen = 2 + ch.draw(3, 'generations')
    w.scenario = {'cfg': cfg, 'generations': []}
    w.nontrivial = True
    seed_generators(w)
    for g in range(n_gen):
        order = ch.shuffle(sorted(BODIES), 'gen.order')
        if ch.flag(1, 2, 'gen.subset'):
            order = order[:max(3, len(order) // 2)]
        script = [{'pre': cfg['latency'][0], 'post': cfg['latency'][1]}] * 8
        st = Stack(w, cfg['client_async'], cfg['server_async'], cfg['flavour'],
                   client_kwargs=_client_kwargs(cfg), dispatcher_kwargs=_dispatcher_kwargs(cfg),
                   script=script, suffix=f'g{g}', methods=order)
        calls = []
        for k in range(1 + ch.draw(4, 'n_calls')):
            for _ in range(6):
                c = gen.logical_call(ch, f'g{g}t{k}', exotic=True, allow_single=True)
                if c.method in order:
                    break
            else:
                continue
            calls.append(c)
        _plan_pauses(w, calls)
        w.scenario['generations'].append({'order': order, 'calls': [c.describe() for c in calls]})
        for c in calls:
            notations = SINGLE_NOTIFY_NOTATIONS if c.notification else SINGLE_CALL_NOTATIONS
            notation = notations[ch.draw(len(notations), 'notation')]
            ctx = {'notation': notation, 'id_gen': cfg['id_gen'], 'method': c.method, 'kind': 'generations',
                   'notification': c.notification, 'strict': cfg['strict'], 'generation': g}
            op = f'generation {g}: {notation}({c.method})'
            hand_id = ch.choice(gen.REQ_IDS, 'hand_id') if notation == 'send' and not c.notification else None
            got = _issue_single(st, c, notation, hand_id)
            if c.notification:
                if got[0] != 'value' or got[1] is not None:
                    w.violate('C07.notification', f'{op}: a notification must return None and raise nothing, got '
                              f'{got[0]} {got[1]!r}', outcome=got[0],
                              exc=type(got[1]).__name__ if got[0] != 'value' else None, **ctx)
            else:
                _check_call_outcome(w, got, c, JsonRpcError, op, ctx)
        _check_executions(w, st, calls, f'generation {g}', {'kind': 'generations', 'id_gen': cfg['id_gen'], 'generation': g})
        if w.violations:
            return
        del st
        gc.collect()


def fam_batch(w: World) -> None:
    ch = w.ch
    cfg = _config(w)
    n = 1 + ch.draw(4, 'n_calls')
    all_notif = ch.flag(1, 6, 'all_notifications')
    calls = [gen.logical_call(ch, f't{k}', exotic=True, allow_single=True) for k in range(n)]
    if all_notif:
        for c in calls:
            c.notification = True
        w.probe('all_notification_batch')
    _plan_pauses(w, calls)
    positional = all(not c.kwargs for c in calls) and not any(c.notification for c in calls)
    notations = [x for x in BATCH_NOTATIONS if x != 'getitem' or positional]
    if n >= 2 and not calls[-1].kwargs and not calls[-1].notification:
        notations.append('add_getitem')
    first = ch.choice(notations, 'notation')
    second = notations[(notations.index(first) + 1 + ch.draw(max(1, len(notations) - 1), 'notation2')) % len(notations)]
    w.scenario = {'cfg': cfg, 'calls': [c.describe() for c in calls], 'notations': [first, second]}
    w.nontrivial = True
    hand_ids = ch.shuffle(gen.REQ_IDS, 'hand_ids')[:n]
    results = []
    for rnd, notation in enumerate((first, second)):
        st = _stack(w, cfg, suffix=str(rnd), n=n)
        ctx = {'notation': notation, 'id_gen': cfg['id_gen'], 'kind': 'batch', 'strict': cfg['strict'],
               'all_notifications': all(c.notification for c in calls)}
        op = f'batch.{notation}[{n}]'
        build = ch.choice(BATCH_BUILDS, 'send.build') if notation == 'send' else 'ctor'
        if notation == 'send':
            ctx['build'] = build
            w.probe('send.build.' + build)
        got = _issue_batch(st, calls, notation, hand_ids, build)
        sent = st.net.sent
        if len(sent) != 1:
            if got[0] == 'raise' and isinstance(got[1], TypeError) and not sent:
                w.violate('C07.wire.encode', f'{op}: request could not be encoded: {got[1]}', exc='TypeError', **ctx)
                results.append(None)
                continue
            w.violate('C07.wire.count', f'{op}: {len(sent)} documents on the wire, expected exactly one', **ctx)
        doc_noid = None
        if sent:
            _check_doc(w, sent[0], calls, True, op)
            d = json.loads(sent[0])
            if isinstance(d, list):
                doc_noid = [{k: v for k, v in e.items() if k != 'id'} if isinstance(e, dict) else e for e in d]
        results.append(doc_noid)
        _check_batch_outcome(w, got, calls, op, ctx)
        _check_executions(w, st, calls, op, ctx)
    if results[0] is not None and results[1] is not None and results[0] != results[1]:
        w.violate('C07.interchangeable', f'notations {first} and {second} put different documents (up to ids) on '
                  'the wire', kind='batch')


def _check_batch_outcome(w: World, got: Tuple[Any, ...], calls: List[gen.LogicalCall], op: str, ctx: Dict[str, Any]) -> None:
    real_calls = [c for c in calls if not c.notification]
    exps = [direct(c.method, c.args, c.kwargs) for c in real_calls]
    if got[0] == 'raise':
        e = got[1]
        w.violate('C07.outcome.exception', f'{op}: {type(e).__name__}: {e}', exc=type(e).__name__, **ctx)
        return
    if not real_calls:
        value = got[1]
        if got[0] not in ('tuple', 'responses') or value is not None:
            w.violate('C07.notification', f'{op}: a batch of notifications must return None and raise nothing, got '
                      f'{got[0]} {value!r}', outcome=got[0], **ctx)
        return
    if got[0] == 'responses':
        resp, reqs = got[1], got[2]
        if resp is None:
            w.violate('C07.outcome.value', f'{op}: batch.send returned None for a batch with calls', **ctx)
            return
        if resp.is_error:
            w.violate('C07.outcome.error', f'{op}: batch-level error {resp.error!r} for an acceptable batch', **ctx)
            return
        by_id = {}
        for r in resp:
            by_id[(type(r.id).__name__, r.id)] = r
        call_reqs = [r for r in reqs if r.id is not None]
        if len(by_id) != len(call_reqs) or len(resp) != len(call_reqs):
            w.violate('C07.outcome.value', f'{op}: {len(resp)} responses for {len(call_reqs)} calls', **ctx)
            return
        for req, c in zip(call_reqs, real_calls):
            r = by_id.get((type(req.id).__name__, req.id))
            if r is None:
                w.violate('C07.outcome.value', f'{op}: no response with id {req.id!r}', **ctx)
                continue
            if r.related is not req:
                w.violate('C07.outcome.related', f'{op}: response {req.id!r} is not related to its request', **ctx)
            _check_call_outcome(w, _outcome_of(lambda r=r: r.result), c, JsonRpcError, f'{op}[{c.method}]', ctx)
        return
    first_fail = next((k for k, e in enumerate(exps) if e[0] != 'ok'), None)
    if first_fail is None:
        want = [e[1] for e in exps]
        if got[0] != 'tuple':
            w.violate('C07.outcome.value', f'{op}: raised {got[1]!r}, expected results {want!r}', **ctx)
        elif not isinstance(got[1], tuple) or not R.json_equal(list(got[1]), want):
            w.violate('C07.outcome.value', f'{op}: got {got[1]!r}, expected results {tuple(want)!r}', **ctx)
        return
    if got[0] == 'tuple':
        w.violate('C07.outcome.error', f'{op}: returned {got[1]!r} although call {first_fail} fails', **ctx)
        return
    _check_call_outcome(w, ('error', got[1]), real_calls[first_fail], JsonRpcError,
                        f'{op}[first failing call {first_fail}]', ctx)


def fam_batch_reuse(w: World) -> None:
    """One batch object: filled, called, filled further, called again (2-3 rounds)."""
    ch = w.ch
    cfg = _config(w)
    rounds = 2 + ch.draw(2, 'rounds')
    first_all_notif = ch.flag(1, 3, 'first_all_notifications')
    notation = ch.choice(['add', 'dunder', 'proxy'], 'notation')
    plan: List[List[gen.LogicalCall]] = []
    k = 0
    for r in range(rounds):
        cs = []
        for _ in range(1 + ch.draw(2, 'round.size')):
            c = gen.logical_call(ch, f't{k}', exotic=True, allow_single=True)
            if r == 0 and first_all_notif:
                c.notification = True
            cs.append(c)
            k += 1
        plan.append(cs)
    _plan_pauses(w, [c for cs in plan for c in cs])
    w.scenario = {'cfg': cfg, 'rounds': [[c.describe() for c in cs] for cs in plan], 'notation': notation}
    w.nontrivial = True
    st = _stack(w, cfg, suffix='', n=sum(len(cs) for cs in plan))
    b = st.client.batch
    p = b.proxy
    so_far: List[gen.LogicalCall] = []
    for r, cs in enumerate(plan):
        for c in cs:
            if c.notification:
                b.notify(c.method, *c.args, **c.kwargs)
            elif notation == 'dunder':
                b(c.method, *c.args, **c.kwargs)
            elif notation == 'proxy':
                getattr(p, c.method)(*c.args, **c.kwargs)
            else:
                b.add(c.method, *c.args, **c.kwargs)
        so_far = so_far + cs
        ctx = {'notation': notation, 'id_gen': cfg['id_gen'], 'kind': 'batch_reuse', 'strict': cfg['strict'], 'round': r,
               'all_notifications': all(c.notification for c in so_far)}
        op = f'reused batch, round {r} [{len(so_far)}]'
        before = len(st.net.sent)
        got = _tuple_outcome(lambda: st.run(lambda: b.call()))
        sent = st.net.sent[before:]
        if got[0] == 'raise' and isinstance(got[1], TypeError) and not sent:
            w.violate('C07.wire.encode', f'{op}: request could not be encoded: {got[1]}', exc='TypeError', **ctx)
            return
        if len(sent) != 1:
            w.violate('C07.wire.count', f'{op}: {len(sent)} documents on the wire, expected exactly one', **ctx)
            return
        _check_doc(w, sent[0], so_far, True, op)
        _check_batch_outcome(w, got, so_far, op, ctx)
        if w.violations:
            return
    recs = [x for x in w.history if x['node'] == st.server.node and x['kind'] == 'method.enter']
    want = sorted((c.method, c.tok) for r, cs in enumerate(plan) for c in cs for _ in range(rounds - r))
    got_ex = sorted((x['method'], x['tok']) for x in recs)
    if want != got_ex:
        w.violate('C07.executions', f'reused batch: executed {got_ex}, expected {want}', kind='batch_reuse',
                  id_gen=cfg['id_gen'])


def fam_concurrent(w: World) -> None:
    """Two or three callers share ONE asynchronous client (and one server); their calls overlap in virtual time."""
    import asyncio
    ch = w.ch
    cfg = _config(w)
    cfg['client_async'] = True
    n = 2 + ch.draw(2, 'callers')
    calls = [gen.logical_call(ch, f't{k}', exotic=True, allow_single=True) for k in range(n)]
    _plan_pauses(w, calls)
    notations = []
    for c in calls:
        opts = SINGLE_NOTIFY_NOTATIONS if c.notification else SINGLE_CALL_NOTATIONS + ['batch']
        notations.append(ch.choice(opts, 'notation'))
    delays = [ch.choice(gen.PAUSES, 'caller.delay') for _ in calls]
    w.scenario = {'cfg': cfg, 'calls': [c.describe() for c in calls], 'notations': notations, 'delays': delays}
    w.nontrivial = True
    seed_generators(w)
    script = [{'pre': ch.choice(gen.PAUSES, 'net.pre'), 'post': ch.choice(gen.PAUSES, 'net.post')} for _ in range(n)]
    st = Stack(w, True, cfg['server_async'], cfg['flavour'],
               client_kwargs=_client_kwargs(cfg), dispatcher_kwargs=_dispatcher_kwargs(cfg, 8), script=script)
    cl = st.client
    results: Dict[int, Tuple[Any, ...]] = {}

    async def one(k: int, c: gen.LogicalCall, notation: str) -> None:
        await asyncio.sleep(delays[k])
        try:
            if c.notification:
                if notation == 'notify':
                    v = await cl.notify(c.method, *c.args, **c.kwargs)
                else:
                    v = await cl.send(pjrpc.Request(c.method, list(c.args) or dict(c.kwargs) or None, None))
            elif notation == 'call':
                v = await cl.call(c.method, *c.args, **c.kwargs)
            elif notation == 'dunder':
                v = await cl(c.method, *c.args, **c.kwargs)
            elif notation == 'proxy':
                v = await getattr(cl.proxy, c.method)(*c.args, **c.kwargs)
            elif notation == 'batch':
                b = cl.batch
                b.add(c.method, *c.args, **c.kwargs)
                v = (await b.call())[0]
            else:
                resp = await cl.send(pjrpc.Request(c.method, list(c.args) or dict(c.kwargs) or None, f'h{k}'))
                v = resp.result
            results[k] = ('value', v)
        except JsonRpcError as e:
            results[k] = ('error', e)
        except Exception as e:  # noqa: BLE001
            results[k] = ('raise', e)

    async def main() -> None:
        await asyncio.gather(*(one(k, c, nt) for k, (c, nt) in enumerate(zip(calls, notations))))

    assert st.loop is not None
    st.loop.run_until_complete(main())
    if len(st.net.sent) != n:
        w.violate('C07.wire.count', f'{len(st.net.sent)} documents on the wire for {n} concurrent operations',
                  kind='concurrent', id_gen=cfg['id_gen'])
    for k, c in enumerate(calls):
        ctx = {'notation': notations[k], 'id_gen': cfg['id_gen'], 'method': c.method, 'kind': 'concurrent',
               'notification': c.notification, 'strict': cfg['strict']}
        got = results.get(k, ('raise', RuntimeError('caller did not finish')))
        op = f'concurrent {notations[k]}({c.method})'
        if got[0] == 'raise' and isinstance(got[1], TypeError) and len(st.net.sent) < n:
            w.violate('C07.wire.encode', f'{op}: request could not be encoded: {got[1]}', exc='TypeError', **ctx)
            return
        if c.notification:
            if got[0] != 'value' or got[1] is not None:
                w.violate('C07.notification', f'{op}: a notification must return None and raise nothing, got {got[0]} '
                          f'{got[1]!r}', outcome=got[0], **ctx)
        else:
            _check_call_outcome(w, got, c, JsonRpcError, op, ctx)
    _check_executions(w, st, calls, 'concurrent ops', {'kind': 'concurrent', 'id_gen': cfg['id_gen']})
    starts = [r['seq'] for r in w.history if r['kind'] == 'wire.send']
    ends = [r['seq'] for r in w.history if r['kind'] == 'wire.deliver']
    if len(starts) >= 2 and ends and starts[1] < ends[0]:
        w.probe('calls_overlapped')


def systematic(tier: str):
    """Every (client kind, dispatcher kind and flavour, id generator, strict flag) configuration, several seeds each."""
    reps = 8 if tier == 'quick' else 60
    for ca in range(2):
        for sa in range(2):
            for fl in (range(3) if sa else [0]):
                for idg in (0, 6, 9, 12):          # weighted [6, 3, 3, 1] -> sequential, randint, random, uuid
                    for ns in (0, 3):              # flag(1, 4): raw 3 -> non-strict
                        for _ in range(reps):
                            yield {'cfg.client_async': [ca], 'cfg.server_async': [sa], 'cfg.flavour': [fl],
                                   'cfg.id_gen': [idg], 'cfg.nonstrict': [ns]}


FAMILIES = {'e2e.single': fam_single, 'e2e.batch': fam_batch, 'e2e.concurrent': fam_concurrent,
            'e2e.batch_reuse': fam_batch_reuse, 'e2e.generations': fam_generations}
SYSTEMATIC = {'e2e.single': systematic, 'e2e.batch': systematic}
PLAN = {
    'quick': {'e2e.single': 30000, 'e2e.batch': 30000, 'e2e.concurrent': 15000, 'e2e.batch_reuse': 15000,
              'e2e.generations': 12000},
    'thorough': {'e2e.single': 20000, 'e2e.batch': 20000, 'e2e.concurrent': 45000, 'e2e.batch_reuse': 45000,
                 'e2e.generations': 30000},
}
THOROUGH_BUDGET_S = 600
