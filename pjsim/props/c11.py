"""C11 - the synchronous and asynchronous halves behave identically.

For each seed the schedule-independent part of a scenario (operations, fault plan per attempt, callee
scripts, configuration) is drawn first and then executed on the synchronous stack and on the asynchronous
stack (the async dispatcher with coroutine methods and with plain functions, under a seeded schedule).
The two histories are compared after projection to schedule-invariant observations.  No reference model.
"""
from __future__ import annotations

import json
from types import SimpleNamespace
from typing import Any, Dict, List, Tuple

from .. import clientscn as CS
from .. import serverscn as S
from ..ref import chain as C
from ..ref import jsonrpc as R
from ..world import World
from . import c09

PROP = 'C11'
LEVEL = 'exploration'
REAL = ['pjrpc/server/dispatcher.py (Dispatcher vs AsyncDispatcher)',
        'pjrpc/client/client.py (AbstractClient vs AbstractAsyncClient, Batch vs AsyncBatch)',
        'pjrpc/client/retry.py (retry vs retry_async)', 'pjrpc/client/tracer.py', 'pjrpc/common/v20.py']
STUB = ['transport (SimNet, identical fault script for both stacks)', 'sleeping (virtual clock)',
        'event loop (SimLoop) for the asynchronous stack']
ASSUMPTIONS = ['the instrumented sync and async middlewares / handlers / methods of the simulator are equivalent by '
               'construction (same bodies)', 'observations are projected to schedule-invariant parts before comparison']


def _server_view(w: World, sut: S.ServerUnderTest, text: str, n: int) -> Dict[str, Any]:
    before = len(w.history)
    outcome = sut.deliver(text)
    recs = [r for r in w.history[before:] if r['node'] == sut.node_name]
    view: Dict[str, Any] = {}
    if outcome[0] == 'raise':
        view['outcome'] = ('raise', type(outcome[1]).__name__)
    elif outcome[1] is None:
        view['outcome'] = ('none',)
    else:
        body, codes = outcome[1]
        try:
            view['outcome'] = ('reply', json.loads(body), list(codes))
        except ValueError:
            view['outcome'] = ('reply_text', body, list(codes))
    view['executions'] = sorted((m, json.dumps(a, sort_keys=True)) for m, a in S.executions_of(recs))
    view['chains'] = {f't{k}': C.project(recs, f't{k}') for k in range(n)}
    view['handler_inputs'] = sorted((r['hid'], r.get('tok') or '', r['code'], r['message'], json.dumps(r['data']), r['has_data'])
                                    for r in recs if r['kind'] == 'eh.call')
    return view


def fam_server(w: World) -> None:
    ch = w.ch
    info = S.gen_document(ch, max_len=4, allow_junk=True)
    text = info['text']
    if info['shape'] in ('single', 'batch') and ch.flag(1, 4, 'corrupt'):
        text, kind = S.corrupt_text(ch, text)
        w.fault(kind)
    if S.outside_quantifier(w, text):
        return
    n = len(info['doc']) if isinstance(info['doc'], list) else 1
    cfg = S.draw_config(ch, n, middlewares=True, handlers=True, force_async=False)
    if ch.flag(1, 4, 'srv.own_encoder'):
        cfg['hooks'] = 'own_encoder'     # the same (non-default) configuration for all three dispatchers
    w.scenario = {'cfg': cfg, 'text': text if len(text) < 400 else text[:200] + '...'}
    w.nontrivial = True
    views = {}
    context = SimpleNamespace(mark='ctx-mark')
    sync_cfg = dict(cfg, **{'async': False, 'flavour': 'sync'})
    views['sync'] = _server_view(w, S.ServerUnderTest(w, sync_cfg, node='srv_sync', context=context), text, n + 1)
    for flavour in ('async', 'sync'):
        acfg = dict(cfg, **{'async': True, 'flavour': flavour})
        S.plan_pauses(w, acfg, n + 1)
        views['async.' + flavour] = _server_view(
            w, S.ServerUnderTest(w, acfg, node='srv_async_' + flavour, context=context), text, n + 1)
    # concurrent elements carrying the same token (possible after wire corruption) interleave their records:
    # their projected chains are then compared as multisets
    ok_json, parsed = R.strict_loads(text)
    toks = [C._tok(e.get('params', [])) for e in parsed if isinstance(e, dict)] if ok_json and isinstance(parsed, list) else []
    if len([t for t in toks if t is not None]) != len({t for t in toks if t is not None}):
        w.probe('duplicate_tokens_after_corruption')
        for v in views.values():
            v['chains'] = {t: sorted(map(repr, evs)) for t, evs in v['chains'].items()}
    base = views['sync']
    for name in ('async.async', 'async.sync'):
        other = views[name]
        ctx = {'half': 'server', 'against': name, 'shape': info['shape']}
        for key in ('outcome', 'executions', 'chains', 'handler_inputs'):
            if not _same(base[key], other[key]):
                what = 'plain (non-coroutine) functions on the asynchronous dispatcher' if name == 'async.sync' \
                    else 'the asynchronous dispatcher'
                w.violate(f'C11.server.{key}', f'{what}: {key} {json.dumps(other[key], default=str)[:160]} differs from '
                          f'the synchronous dispatcher {json.dumps(base[key], default=str)[:160]} for {text[:100]!r}',
                          **ctx)
                break


def _same(a: Any, b: Any) -> bool:
    return json.dumps(a, sort_keys=True, default=str) == json.dumps(b, sort_keys=True, default=str)


def _client_view(w: World, scn: Dict[str, Any], obs: CS.Obs) -> Dict[str, Any]:
    recs = obs.records
    raised_oids = {r['oid']: r['attempt'] for r in recs if r['kind'] == 'wire.raise'}
    view: Dict[str, Any] = {
        'sent': [r['text'] for r in recs if r['kind'] == 'wire.send'],
        'sleeps': [r['delay'] for r in recs if r['kind'] == 'sleep'],
        'outcome': CS.describe_outcome(w, obs),
        'trace': [],
    }
    if obs.outcome[0] == 'raise':
        view['outcome_from_attempt'] = raised_oids.get(w.ordinal(obs.exc))
    ctxs: Dict[int, int] = {}
    for r in recs:
        if r['kind'].startswith('trace.'):
            c = ctxs.setdefault(r['ctx'], len(ctxs))
            item = [r['kind'], r['tracer'], c]
            if r['kind'] == 'trace.end':
                item.append(r['resp_doc'])
            elif r['kind'] == 'trace.error':
                item += [r['exc'], raised_oids.get(r['oid'])]
            view['trace'].append(item)
    view['executions'] = sorted((r['method'], r['tok']) for r in recs if r['kind'] == 'method.enter')
    return view


def fam_client(w: World) -> None:
    scn = CS.draw_scenario(w.ch, cancel=False, max_tracers=2)
    c09.normalise_script(scn)
    if w.ch.flag(1, 8, 'blank_reply'):
        # the transport hands back a reply that is white space only (some HTTP stacks do for 204-like answers): what
        # the clients make of it is not fixed by any statement, but both must make the same of it
        step = scn['script'][w.ch.draw(len(scn['script']), 'blank_reply.step')]
        step['outcome'] = 'blank'
        step['blank'] = w.ch.choice(['\n', ' ', ' \r\n\t ', '\n\n'], 'blank_reply.text')
    if scn['tracers'] and w.ch.flag(1, 6, 'tracer.raises_on_end'):
        # a tracer that fails in on_request_end: whatever the clients do with it, they must do the same
        scn['tracer_raises_on_end'] = w.ch.draw(scn['tracers'], 'tracer.which')
    w.scenario = scn
    w.nontrivial = True
    obs_s = CS.run_scenario(w, scn, False, suffix='S')
    obs_a = CS.run_scenario(w, scn, True, suffix='A')
    vs, va = _client_view(w, scn, obs_s), _client_view(w, scn, obs_a)
    ctx = {'half': 'client', 'kind': scn['kind'], 'via': scn['via'], 'placement': scn['placement']}
    for key in ('sent', 'sleeps', 'outcome', 'outcome_from_attempt', 'trace', 'executions'):
        if not _same(vs.get(key), va.get(key)):
            w.violate(f'C11.client.{key}', f'async client: {key} {json.dumps(va.get(key), default=str)[:170]} differs '
                      f'from the sync client {json.dumps(vs.get(key), default=str)[:170]}', **ctx)
            break


def fam_server_history(w: World) -> None:
    """Long-lived dispatchers: the same sequence of request texts on one Dispatcher and two AsyncDispatchers."""
    ch = w.ch
    n_req = 2 + ch.draw(5, 'history.n')
    infos = []
    for r in range(n_req):
        info = S.gen_document(ch, max_len=3, allow_junk=True)
        info['text'] = info['text'].replace('"t', f'"h{r}_t')
        infos.append(info)
    cfg = S.draw_config(ch, 3, middlewares=True, handlers=True, force_async=False)
    if ch.flag(1, 4, 'srv.own_encoder'):
        cfg['hooks'] = 'own_encoder'
    w.scenario = {'cfg': cfg, 'texts': [i['text'] for i in infos]}
    w.nontrivial = True
    context = SimpleNamespace(mark='ctx-mark')
    suts = {'sync': S.ServerUnderTest(w, dict(cfg, **{'async': False, 'flavour': 'sync'}), node='srv_sync', context=context)}
    for flavour in ('async', 'sync'):
        acfg = dict(cfg, **{'async': True, 'flavour': flavour})
        suts['async.' + flavour] = S.ServerUnderTest(w, acfg, node='srv_async_' + flavour, context=context)
    for r, info in enumerate(infos):
        for j in range(5):
            tok = f'h{r}_t{j}'
            w.plan[('method', tok)] = [ch.choice(gen_pauses(), 'pause.d') for _ in range(ch.draw(2, 'pause.n'))]
        views = {}
        for name, sut in suts.items():
            before = len(w.history)
            outcome = sut.deliver(info['text'])
            recs = [x for x in w.history[before:] if x['node'] == sut.node_name]
            view = {'outcome': ('raise', type(outcome[1]).__name__) if outcome[0] == 'raise' else
                    (('none',) if outcome[1] is None else ('reply', outcome[1][0] if not _is_json(outcome[1][0]) else json.loads(outcome[1][0]), list(outcome[1][1]))),
                    'executions': sorted((m, json.dumps(a, sort_keys=True)) for m, a in S.executions_of(recs)),
                    'handler_calls': sorted((x['hid'], x.get('tok') or '', x['code']) for x in recs if x['kind'] == 'eh.call'),
                    'mw_calls': sorted((x['mw'], x.get('tok') or '') for x in recs if x['kind'] == 'mw.enter')}
            views[name] = view
        for name in ('async.async', 'async.sync'):
            for key in ('outcome', 'executions', 'handler_calls', 'mw_calls'):
                if not _same(views['sync'][key], views[name][key]):
                    w.violate(f'C11.server.{key}', f'request {r} on long-lived dispatchers ({name}): {key} '
                              f'{json.dumps(views[name][key], default=str)[:150]} differs from the synchronous dispatcher '
                              f'{json.dumps(views["sync"][key], default=str)[:150]}', half='server.history',
                              against=name, request_index=r)
                    return


def gen_pauses() -> List[float]:
    from .. import gen
    return gen.PAUSES


def _is_json(text: str) -> bool:
    try:
        json.loads(text)
        return True
    except ValueError:
        return False


def fam_client_history(w: World) -> None:
    """Long-lived clients: the same sequence of scripted requests on one sync and one async client."""
    ch = w.ch
    n_req = 2 + ch.draw(4, 'history.n')
    first = CS.draw_scenario(ch, cancel=False, max_tracers=2)
    first['placement'], first['request_strategy'] = 'client', 'unset'
    if first['client_strategy'] is None:
        first['client_strategy'] = CS.draw_strategy(ch)
    n = first['client_strategy']['backoff']['attempts']
    scns = [first]
    for _ in range(n_req - 1):
        nxt = CS.draw_scenario(ch, cancel=False, max_tracers=2)
        for key in ('client_strategy', 'strict', 'server_async', 'tracers'):
            nxt[key] = first[key]
        nxt['placement'], nxt['request_strategy'] = 'client', 'unset'
        scns.append(nxt)
    for scn in scns:
        scn['script'] = (scn['script'] * 3)[:n + 2]
        c09.normalise_script(scn)
    w.scenario = {'requests': scns}
    w.nontrivial = True
    stacks = {'S': None, 'A': None}
    for r, scn in enumerate(scns):
        views = {}
        for suffix, is_async in (('S', False), ('A', True)):
            obs = CS.run_scenario(w, scn, is_async, suffix=suffix, reuse=stacks[suffix], tok_prefix=f'r{r}f')
            stacks[suffix] = obs.stack
            views[suffix] = _client_view(w, scn, obs)
        ctx = {'half': 'client.history', 'kind': scn['kind'], 'via': scn['via'], 'request_index': r}
        for key in ('sent', 'sleeps', 'outcome', 'outcome_from_attempt', 'trace', 'executions'):
            if not _same(views['S'].get(key), views['A'].get(key)):
                w.violate(f'C11.client.{key}', f'request {r} on long-lived clients: async {key} '
                          f'{json.dumps(views["A"].get(key), default=str)[:160]} differs from sync '
                          f'{json.dumps(views["S"].get(key), default=str)[:160]}', **ctx)
                return


def fam_server_big(w: World) -> None:
    """Large batches (around 100 and a few hundred elements): the three dispatchers must agree element for element."""
    ch = w.ch
    n = ch.choice([99, 100, 101, 128, 129, 257, 300], 'big.n')
    els = []
    for k in range(n):
        kind = ch.weighted([6, 1, 1, 1], 'big.kind')
        tok = f't{k}'
        if kind == 0:
            el = {'jsonrpc': '2.0', 'method': 'echo', 'params': [tok, k], 'id': k}
        elif kind == 1:
            el = {'jsonrpc': '2.0', 'method': 'none', 'params': [tok]}           # a notification
        elif kind == 2:
            el = {'jsonrpc': '2.0', 'method': 'nosuch', 'params': [tok], 'id': f's{k}'}
        else:
            el = {'jsonrpc': '2.0', 'method': 'fail_exc', 'params': [tok, 'value'], 'id': k}
        els.append(el)
    text = json.dumps(els)
    cfg = S.draw_config(ch, n)
    if cfg['max_batch_size'] is not None and 0 < cfg['max_batch_size'] < n:
        cfg['max_batch_size'] = ch.choice([None, n, n - 1], 'big.max_batch')
    w.scenario = {'cfg': cfg, 'n': n}
    w.nontrivial = True
    views = {}
    views['sync'] = _server_view(w, S.ServerUnderTest(w, dict(cfg, **{'async': False, 'flavour': 'sync'}), node='srv_sync'),
                                 text, 0)
    for flavour in ('async', 'sync'):
        acfg = dict(cfg, **{'async': True, 'flavour': flavour})
        if flavour == 'async':
            for k in range(0, n, 7):
                w.plan[('method', f't{k}')] = [ch.choice([0.0, 0.125, 1.0], 'big.pause')]
        views['async.' + flavour] = _server_view(w, S.ServerUnderTest(w, acfg, node='srv_async_' + flavour), text, 0)
    base = views['sync']
    for name, view in views.items():
        for key in ('outcome', 'executions'):
            if view[key] != base[key]:
                got, want = view[key], base[key]
                detail = ''
                if key == 'outcome' and got[0] == want[0] == 'reply' and isinstance(got[1], list) and isinstance(want[1], list):
                    detail = f' ({len(got[1])} entries against {len(want[1])})'
                w.violate('C11.server.' + key, f'{name} and the synchronous dispatcher disagree on a batch of {n} '
                          f'elements{detail}', view=name, key=key, n=n)
                return


FAMILIES = {'twin.server.big': fam_server_big, 'twin.server': fam_server, 'twin.client': fam_client, 'twin.client.history': fam_client_history,
            'twin.server.history': fam_server_history}
PLAN = {
    'quick': {'twin.server': 40000, 'twin.client': 40000, 'twin.client.history': 12000, 'twin.server.history': 12000,
              'twin.server.big': 600},
    'thorough': {'twin.server': 60000, 'twin.client': 60000, 'twin.client.history': 36000, 'twin.server.history': 36000,
                 'twin.server.big': 1200},
}
THOROUGH_BUDGET_S = 600
