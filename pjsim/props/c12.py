"""C12 - middlewares and error handlers run once per request element, in the declared order.

Instrumented middlewares (pass-through, short-circuit, request-rewriting, response-rewriting) and error
handlers (identity, code-replacing, annotating) write an event log; per element the projected log and the
reply are compared with the reference chain, for the sync dispatcher and for the async dispatcher under
seeded schedules with suspending middlewares / handlers / methods.
"""
from __future__ import annotations

import json
from types import SimpleNamespace
from typing import Any, Dict, List

from .. import serverscn as S
from ..ref import chain as C
from ..ref import jsonrpc as R
from ..service import NODATA, ProtoFailure
from ..world import World

PROP = 'C12'
LEVEL = 'exploration'
REAL = ['pjrpc/server/dispatcher.py (middleware chain construction, _handle_request, error-handler folding)',
        'pjrpc/common/v20.py', 'pjrpc/common/exceptions.py', 'pjrpc/server/validators/base.py']
STUB = ['the peer (generated request documents)', 'event loop (SimLoop) for the async dispatcher']
ASSUMPTIONS = ['middlewares and error handlers do not raise; a short-circuiting middleware returns nothing for a '
               'notification', 'every generated element carries its token, so log records are attributable']


def judge_chain(w: World, prop: str, sut: S.ServerUnderTest, info: Dict[str, Any], outcome: Any, doc: Any,
                recs: List[Dict[str, Any]], ctx: Dict[str, Any]) -> None:
    cfg = sut.cfg
    req_doc = info['doc']
    elements = req_doc if isinstance(req_doc, list) else [req_doc]
    accepted = True
    ref = R.ref_dispatch(info['text'], S.METHOD_MODELS, cfg['max_batch_size'], NODATA, (ProtoFailure,))
    if ref['open']:
        return
    rejected_alt = [a for a in ref['alternatives'] if isinstance(a[0], dict) and a[0].get('id') is None
                    and 'error' in a[0] and a[0]['error']['code'] in (R.INVALID_REQUEST, R.PARSE_ERROR) and not a[1]]
    is_reject_reply = isinstance(doc, dict) and doc.get('id') is None and 'error' in doc and \
        doc['error'].get('code') in (R.INVALID_REQUEST, R.PARSE_ERROR)
    if rejected_alt and (len(ref['alternatives']) == 1 or is_reject_reply):
        accepted = False
    chain_recs = [r for r in recs if r['kind'] in ('mw.enter', 'mw.exit', 'eh.call', 'method.enter')]
    if not accepted:
        w.probe('rejected_document')
        if chain_recs:
            w.violate(f'{prop}.rejected', f'middleware / handler / method activity for a rejected document: '
                      f'{[(r["kind"], r.get("tok")) for r in chain_recs][:6]}', **ctx)
        why = R.match_reply(doc, rejected_alt[0][0])
        if why:
            w.violate(f'{prop}.reply', f'rejected document: {why}', **ctx)
        return
    expected_replies = []
    for k, el in enumerate(elements):
        tok = C._tok(el.get('params', []))
        hanging = None
        if cfg['async']:
            hung = info.get('hanging', ())
            hanging = lambda t, m: t in hung and sut.service.is_coro.get(m, False)  # noqa: E731
        exp_events, exp_reply = C.expected_element(el, cfg['middlewares'], cfg['handlers'], S.METHOD_MODELS, NODATA,
                                                   (ProtoFailure,), hanging)
        if hanging is not None and any(r['kind'] == 'mw.deadline' and r.get('tok') == tok for r in recs):
            w.probe('deadline_expired')
        if exp_reply is not None:
            expected_replies.append(exp_reply)
        if tok is None:
            continue
        got = C.project(recs, tok)
        if got != exp_events:
            w.violate(f'{prop}.chain', f'element {k} ({el.get("method")}, id {el.get("id")!r}): event log {got} '
                      f'instead of {exp_events}', **ctx)
        if any(e[0] == 'eh' for e in exp_events):
            w.probe('error_handlers_ran')
        for r in recs:
            if r['kind'] == 'mw.enter' and r.get('tok') == tok:
                if r['ctx'] != 'ctx-mark' or not r['is_request']:
                    w.violate(f'{prop}.mw_args', f'middleware {r["mw"]} did not receive the parsed request and the '
                              f'context (ctx={r["ctx"]!r})', **ctx)
    if isinstance(req_doc, list):
        exp_doc: Any = expected_replies if expected_replies else None
    else:
        exp_doc = expected_replies[0] if expected_replies else None
    why = R.match_reply(doc, exp_doc)
    if why:
        w.violate(f'{prop}.reply', f'{why}; request {info["text"][:140]}', **ctx)
    # handlers must receive what their predecessor returned
    for r in recs:
        if r['kind'] == 'eh.call' and not r['is_error']:
            w.violate(f'{prop}.handler_args', f'handler {r["hid"]} received a non-error object', **ctx)


def fam_chain(w: World) -> None:
    """One to three documents, one after another, through one long-lived dispatcher with middlewares and handlers."""
    ch = w.ch
    n_deliveries = 1 + ch.draw(3, 'deliveries')
    infos = [S.gen_document(ch, exotic=True, max_len=4, allow_junk=True, tok_prefix=f'd{d}_' if d else '') for d in range(n_deliveries)]
    n = max((len(i['doc']) if isinstance(i['doc'], list) else 1) for i in infos)
    cfg = S.draw_config(ch, n, middlewares=True, handlers=True)
    for d in range(n_deliveries):
        S.plan_pauses(w, cfg, n + 1, rate=2, tok_prefix=f'd{d}_' if d else '')
        infos[d]['hanging'] = S.plan_hangs(w, cfg, infos[d]['doc'])
    w.scenario = {'cfg': cfg, 'texts': [i['text'] for i in infos], 'kinds': [i['kinds'] for i in infos]}
    w.nontrivial = bool(cfg['middlewares']) or bool(cfg['handlers'])
    sut = S.ServerUnderTest(w, cfg, context=SimpleNamespace(mark='ctx-mark'))
    sig = []
    for d, info in enumerate(infos):
        ctx = {'async': cfg['async'], 'mws': list(cfg['middlewares']), 'shape': info['shape'],
               'handler_keys': sorted(cfg['handlers']), 'delivery': d}
        before = len(w.history)
        outcome = sut.deliver(info['text'])
        recs = [r for r in w.history[before:] if r['node'] == sut.node_name]
        doc = S.check_wellformed(w, PROP, info['text'], outcome, ctx)
        if outcome[0] == 'raise':
            return
        judge_chain(w, PROP, sut, info, outcome, doc, recs, ctx)
        sig += [(r.get('tok'), r['kind'], r.get('mw', r.get('hid'))) for r in recs
                if r['kind'] in ('mw.enter', 'mw.exit', 'mw.step', 'eh.call', 'eh.step', 'method.enter', 'method.step')]
        if w.violations:
            return
        if cfg['async'] and ch.flag(1, 3, 'new_event_loop'):
            sut.new_event_loop()
    w.sig_parts = sig


def fam_concurrent(w: World) -> None:
    """Two or three documents are in flight at the same time on ONE asynchronous dispatcher (one task per delivery,
    seeded start offsets, suspending middlewares / handlers / methods).  Half of the runs deliver the same document
    (same ids, same methods, own tokens) several times.  Every delivery is judged on its own records."""
    import asyncio
    from ..net import ServerCrashed
    ch = w.ch
    n_del = 2 + ch.draw(2, 'concurrent.n')
    same = ch.flag(1, 2, 'concurrent.same_document')
    infos = [S.gen_document(ch, exotic=True, max_len=3, allow_junk=True, tok_prefix='d0_')]
    for d in range(1, n_del):
        if same:
            if infos[0]['doc'] is not None:
                # tokens are renamed in the parsed document (the first delivery may be spelled with escapes)
                text = json.dumps(infos[0]['doc']).replace('d0_', f'd{d}_')
                doc = json.loads(text)
            else:
                text, doc = infos[0]['text'], None
            infos.append(dict(infos[0], text=text, doc=doc))
        else:
            infos.append(S.gen_document(ch, exotic=True, max_len=3, allow_junk=True, tok_prefix=f'd{d}_'))
    n = max((len(i['doc']) if isinstance(i['doc'], list) else 1) for i in infos)
    cfg = S.draw_config(ch, n, middlewares=True, handlers=True, force_async=True)
    starts = []
    for d in range(n_del):
        S.plan_pauses(w, cfg, n + 1, rate=2, tok_prefix=f'd{d}_')
        infos[d]['hanging'] = S.plan_hangs(w, cfg, infos[d]['doc'], rate=(1, 6))
        starts.append(ch.choice([0.0, 0.0, 0.125, 1.0], 'concurrent.start'))
    w.scenario = {'cfg': cfg, 'texts': [i['text'] for i in infos], 'starts': starts, 'same_document': same}
    w.nontrivial = True
    sut = S.ServerUnderTest(w, cfg, context=SimpleNamespace(mark='ctx-mark'))
    outcomes: List[Any] = [None] * n_del
    spans: List[Any] = [None] * n_del

    async def one(d: int) -> None:
        await asyncio.sleep(starts[d])
        a = w.seq
        try:
            outcomes[d] = ('ret', await sut.server.aserve(infos[d]['text']))
        except ServerCrashed as e:
            outcomes[d] = ('raise', e.__cause__)
        spans[d] = (a, w.seq)

    async def main() -> None:
        await asyncio.gather(*(one(d) for d in range(n_del)))

    assert sut.loop is not None
    sut.loop.run_until_complete(main())
    if any(a[0] < b[0] < a[1] or b[0] < a[0] < b[1] for i, a in enumerate(spans) for b in spans[i + 1:]):
        w.probe('deliveries_overlapped')
    node_recs = [r for r in w.history if r['node'] == sut.node_name]
    for d, info in enumerate(infos):
        ctx = {'async': True, 'mws': list(cfg['middlewares']), 'shape': info['shape'],
               'handler_keys': sorted(cfg['handlers']), 'delivery': d, 'concurrent': True, 'same_document': same}
        doc = S.check_wellformed(w, PROP, info['text'], outcomes[d], ctx)
        if outcomes[d][0] == 'raise':
            return
        prefix = f'd{d}_'
        recs = [r for r in node_recs if isinstance(r.get('tok'), str) and r['tok'].startswith(prefix)]
        judge_chain(w, PROP, sut, info, outcomes[d], doc, recs, ctx)
        if w.violations:
            return
    w.sig_parts = [(r.get('tok'), r['kind'], r.get('mw', r.get('hid'))) for r in node_recs
                   if r['kind'] in ('mw.enter', 'mw.exit', 'eh.call', 'method.enter')]


FAMILIES = {'chain': fam_chain, 'chain.concurrent': fam_concurrent}
PLAN = {
    'quick': {'chain': 100000, 'chain.concurrent': 30000},
    'thorough': {'chain': 120000, 'chain.concurrent': 60000},
}
THOROUGH_BUDGET_S = 600
