"""Reference middleware / error-handler chain (DESIGN.md Appendix F.3)."""
from __future__ import annotations

import json
from typing import Any, Dict, List, Optional, Tuple

from . import jsonrpc as R

SHORT_TRIGGER = 'none'
REWRITE_TRIGGER = 'pair'
WITHHOLD_TRIGGER = 'slow'
REPLACED_CODE_BASE = 7000
CONSTANT_CODE_BASE = 7500
PUBLISHED_AS: Dict[str, str] = {}    # filled by the scenario module (alias -> name the function records)


def _tok(params: Any) -> Optional[str]:
    if isinstance(params, list) and params and isinstance(params[0], str):
        return params[0]
    if isinstance(params, dict) and isinstance(params.get('tok'), str):
        return params['tok']
    return None


class _Hung(Exception):
    """The method never finishes; the innermost deadline middleware above it gives up and the rest is cancelled."""


def expected_element(element: Dict[str, Any], mw_kinds: List[str], handlers: Dict[str, List[Tuple[str, str]]],
                     methods: Dict[str, R.MethodModel], unset: Any, error_types: Tuple[type, ...],
                     hanging: Any = None) -> Tuple[List[Tuple[Any, ...]], Optional[Dict[str, Any]]]:
    """Expected projected event list and reply object (None = no reply) for one valid request element.

    ``hanging(tok, method)`` tells whether the method suspends beyond every deadline (only asked when an asynchronous
    chain contains a deadline middleware)."""
    events: List[Tuple[Any, ...]] = []
    rid = element.get('id')
    deadlines = hanging is not None and 'deadline' in mw_kinds

    def inner(req: Dict[str, Any]) -> Optional[Dict[str, Any]]:
        reply, execution = R.element_outcome(dict(req, id=rid if rid is not None else 0), methods, unset, error_types)
        if execution is not None:
            # a function published under several names records its executions under its own name
            events.append(('method', PUBLISHED_AS.get(execution[0], execution[0])))
            if deadlines and hanging(_tok(req.get('params', [])), execution[0]):
                raise _Hung()
        assert reply is not None
        if 'error' in reply:
            err = dict(reply['error'])
            raised_code = err['code']
            chain = list(handlers.get('none', [])) + list(handlers.get(str(raised_code), []))
            for hid, kind in chain:
                events.append(('eh', hid, err['code']))
                if kind == 'replace':
                    err = {'code': REPLACED_CODE_BASE + int(hid[1:]), 'message': f'replaced-{hid}', 'data': R.ABSENT_DATA}
                elif kind == 'annotate':
                    err = {'code': err['code'], 'message': err['message'], 'data': f'annotated-{hid}'}
                elif kind == 'constant':
                    err = {'code': CONSTANT_CODE_BASE + int(hid[1:]), 'message': f'constant-{hid}', 'data': R.ABSENT_DATA}
            reply = {'jsonrpc': '2.0', 'id': rid, 'error': err}
        else:
            reply = dict(reply, id=rid)
        return reply if rid is not None else None

    def descend(i: int, req: Dict[str, Any]) -> Optional[Dict[str, Any]]:
        if i == len(mw_kinds):
            return inner(req)
        kind = mw_kinds[i]
        events.append(('mw.enter', i, req['method']))
        tok = _tok(req.get('params', []))
        if kind == 'short' and req['method'] == SHORT_TRIGGER:
            resp: Optional[Dict[str, Any]] = None if rid is None else {'jsonrpc': '2.0', 'id': rid, 'result': f'short-{i}'}
        elif kind == 'rewrite_req' and req['method'] == REWRITE_TRIGGER and tok is not None:
            resp = descend(i + 1, {'jsonrpc': '2.0', 'method': 'echo', 'params': [tok, f'rewritten-{i}'], 'id': rid})
        elif kind == 'deadline' and deadlines:
            try:
                resp = descend(i + 1, req)
            except _Hung:
                # everything below was cancelled where it stood: the middlewares below never reach their exit
                resp = None if rid is None else {'jsonrpc': '2.0', 'id': rid, 'result': f'deadline-{i}'}
        else:
            resp = descend(i + 1, req)
        if kind == 'rewrite_resp' and resp is not None and 'result' in resp:
            resp = dict(resp, result=[f'wrapped-{i}', resp['result']])
        if kind == 'withhold' and req['method'] == WITHHOLD_TRIGGER:
            resp = None
        events.append(('mw.exit', i))
        return resp

    return events, descend(0, element)


def project(records: List[Dict[str, Any]], tok: str) -> List[Tuple[Any, ...]]:
    out: List[Tuple[Any, ...]] = []
    for r in records:
        if r.get('tok') != tok:
            continue
        k = r['kind']
        if k == 'mw.enter':
            out.append(('mw.enter', r['mw'], r['method']))
        elif k == 'mw.exit':
            out.append(('mw.exit', r['mw']))
        elif k == 'method.enter':
            out.append(('method', r['method']))
        elif k == 'eh.call':
            out.append(('eh', r['hid'], r['code']))
    return out
