"""Reference model of the pytest mocker (DESIGN.md Appendix F.5): endpoint -> method -> queue of patches, call log."""
from __future__ import annotations

from typing import Any, Dict, List, Optional, Tuple


class Patch:
    def __init__(self, serial: int, kind: str, value: Any, once: bool):
        self.serial = serial      # addition order
        self.kind = kind          # result | error | callback
        self.value = value        # result value | (code, message) | callback name
        self.once = once

    def describe(self) -> Dict[str, Any]:
        return {'serial': self.serial, 'kind': self.kind, 'value': self.value, 'once': self.once}


class CallbackTrouble(Exception):
    """Raised by a callback patch that simulates a transport fault."""


def _boom(*a: Any, **k: Any) -> Any:
    raise CallbackTrouble('scripted callback failure')


REENTER_TARGET: List[Any] = [None]   # (endpoint, method) of the patch whose callback is re-entering
REENTER_HOOK: List[Any] = [None]     # set by the scenario: performs the nested real call, returns its outcome
_DEPTH = [0]


def _reenter(*a: Any, **k: Any) -> Any:
    """A callback that itself calls the same endpoint and method through the same client (once, not recursively)."""
    if _DEPTH[0] >= 1 or REENTER_HOOK[0] is None:
        return 'leaf'
    _DEPTH[0] += 1
    try:
        return ['reentered', REENTER_HOOK[0]()]
    finally:
        _DEPTH[0] -= 1


CALLBACKS = {
    'reenter': _reenter,
    'boom': _boom,
    'sum': lambda *a, **k: sum(v for v in list(a) + list(k.values()) if isinstance(v, (int, float)) and not isinstance(v, bool)),
    'count': lambda *a, **k: len(a) + len(k),
    'names': lambda *a, **k: sorted(k) if k else list(a),
}


class MockerModel:
    def __init__(self, passthrough: bool):
        self.passthrough = passthrough
        self.patches: Dict[str, Dict[str, List[Patch]]] = {}
        self.calls: Dict[str, Dict[str, List[Tuple[Tuple[Any, ...], Dict[str, Any]]]]] = {}
        self.serial = 0
        self._depth = 0
        self.reentrant = False    # True where the real side can perform the nested call (synchronous transport)

    # -- configuration -----------------------------------------------------------------------------------------
    def add(self, endpoint: str, method: str, kind: str, value: Any, once: bool) -> None:
        self.serial += 1
        self.patches.setdefault(endpoint, {}).setdefault(method, []).append(Patch(self.serial, kind, value, once))

    def aligned(self, endpoint: str, method: str) -> bool:
        q = self.patches.get(endpoint, {}).get(method, [])
        return [p.serial for p in q] == sorted(p.serial for p in q)

    def replace(self, endpoint: str, method: str, idx: int, kind: str, value: Any, once: bool) -> None:
        self.serial += 1
        q = self.patches[endpoint][method]
        # the replacement takes the replaced patch's place in the addition order
        q[idx] = Patch(q[idx].serial, kind, value, once)

    def remove(self, endpoint: str, method: Optional[str]) -> None:
        if method is None:
            del self.patches[endpoint]
        else:
            del self.patches[endpoint][method]
            if not self.patches[endpoint]:
                del self.patches[endpoint]

    @staticmethod
    def describe_nested(exp: Dict[str, Any]) -> Any:
        """What the nested call yields, in the form the real re-entering callback reports it."""
        if exp['kind'] in ('refused', 'passthrough', 'callback_raises'):
            return exp['kind']
        if 'error' in exp:
            return ['error', exp['error'][0]]
        return ['result', exp['result']]

    # -- serving ----------------------------------------------------------------------------------------------------
    def serve(self, endpoint: str, method: str, params: Any, rid: Any) -> Dict[str, Any]:
        """Expected outcome of one request element: {'kind': passthrough|refused|reply, ...}"""
        if endpoint not in self.patches:
            return {'kind': 'passthrough' if self.passthrough else 'refused'}
        q = self.patches[endpoint].get(method)
        if q is None:
            return {'kind': 'reply', 'id': rid, 'error': (-32601, None)}
        head = q.pop(0)
        if not head.once:
            q.append(head)
        if not q:
            del self.patches[endpoint][method]
            if not self.patches[endpoint]:
                del self.patches[endpoint]
        args = tuple(params) if isinstance(params, (list, tuple)) else ()
        kwargs = dict(params) if isinstance(params, dict) else {}
        self.calls.setdefault(endpoint, {}).setdefault(method, []).append((args, kwargs))
        if head.kind == 'result':
            return {'kind': 'reply', 'id': rid, 'result': head.value, 'patch': head.serial}
        if head.kind == 'error':
            return {'kind': 'reply', 'id': rid, 'error': head.value, 'patch': head.serial}
        if head.value == 'boom':
            return {'kind': 'callback_raises', 'patch': head.serial}
        if head.value == 'reenter':
            if self._depth >= 1 or not self.reentrant:
                return {'kind': 'reply', 'id': rid, 'result': 'leaf', 'patch': head.serial}
            self._depth += 1
            try:
                nested = self.serve(endpoint, method, ['nested'], 'nested-id')
            finally:
                self._depth -= 1
            return {'kind': 'reply', 'id': rid, 'result': ['reentered', self.describe_nested(nested)], 'patch': head.serial}
        return {'kind': 'reply', 'id': rid, 'result': CALLBACKS[head.value](*args, **kwargs), 'patch': head.serial}
