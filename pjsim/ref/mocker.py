"""Reference model of the pytest mocker (DESIGN.md Appendix F.5): endpoint -> method -> queue of patches, call log."""
from __future__ import annotations

from typing import Any, Dict, List, Optional, Tuple


class Patch:
    def __init__(self, serial: int, kind: str, value: Any, once: bool):
        self.serial = serial      # addition order
        self.kind = kind          # result | error | callback
        self.value = value        # result value | (code, message) | callback name
        self.once = once

    def describe(self) -> Dict[str, Any]:
        return {'serial': self.serial, 'kind': self.kind, 'value': self.value, 'once': self.once}


class CallbackTrouble(Exception):
    """Raised by a callback patch that simulates a transport fault."""


def _boom(*a: Any, **k: Any) -> Any:
    raise CallbackTrouble('scripted callback failure')


CALLBACKS = {
    'boom': _boom,
    'sum': lambda *a, **k: sum(v for v in list(a) + list(k.values()) if isinstance(v, (int, float)) and not isinstance(v, bool)),
    'count': lambda *a, **k: len(a) + len(k),
    'names': lambda *a, **k: sorted(k) if k else list(a),
}


class MockerModel:
    def __init__(self, passthrough: bool):
        self.passthrough = passthrough
        self.patches: Dict[str, Dict[str, List[Patch]]] = {}
        self.calls: Dict[str, Dict[str, List[Tuple[Tuple[Any, ...], Dict[str, Any]]]]] = {}
        self.serial = 0

    # -- configuration -----------------------------------------------------------------------------------------
    def add(self, endpoint: str, method: str, kind: str, value: Any, once: bool) -> None:
        self.serial += 1
        self.patches.setdefault(endpoint, {}).setdefault(method, []).append(Patch(self.serial, kind, value, once))

    def aligned(self, endpoint: str, method: str) -> bool:
        q = self.patches.get(endpoint, {}).get(method, [])
        return [p.serial for p in q] == sorted(p.serial for p in q)

    def replace(self, endpoint: str, method: str, idx: int, kind: str, value: Any, once: bool) -> None:
        self.serial += 1
        q = self.patches[endpoint][method]
        # the replacement takes the replaced patch's place in the addition order
        q[idx] = Patch(q[idx].serial, kind, value, once)

    def remove(self, endpoint: str, method: Optional[str]) -> None:
        if method is None:
            del self.patches[endpoint]
        else:
            del self.patches[endpoint][method]
            if not self.patches[endpoint]:
                del self.patches[endpoint]

    # -- serving ----------------------------------------------------------------------------------------------------
    def serve(self, endpoint: str, method: str, params: Any, rid: Any) -> Dict[str, Any]:
        """Expected outcome of one request element: {'kind': passthrough|refused|reply, ...}"""
        if endpoint not in self.patches:
            return {'kind': 'passthrough' if self.passthrough else 'refused'}
        q = self.patches[endpoint].get(method)
        if q is None:
            return {'kind': 'reply', 'id': rid, 'error': (-32601, None)}
        head = q.pop(0)
        if not head.once:
            q.append(head)
        if not q:
            del self.patches[endpoint][method]
            if not self.patches[endpoint]:
                del self.patches[endpoint]
        args = tuple(params) if isinstance(params, (list, tuple)) else ()
        kwargs = dict(params) if isinstance(params, dict) else {}
        self.calls.setdefault(endpoint, {}).setdefault(method, []).append((args, kwargs))
        if head.kind == 'result':
            return {'kind': 'reply', 'id': rid, 'result': head.value, 'patch': head.serial}
        if head.kind == 'error':
            return {'kind': 'reply', 'id': rid, 'error': head.value, 'patch': head.serial}
        if head.value == 'boom':
            return {'kind': 'callback_raises', 'patch': head.serial}
        return {'kind': 'reply', 'id': rid, 'result': CALLBACKS[head.value](*args, **kwargs), 'patch': head.serial}
