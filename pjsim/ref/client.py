"""Reference response matching of a JSON-RPC client (DESIGN.md Appendix F.2)."""
from __future__ import annotations

from typing import Any, Dict, List, Optional, Tuple

from . import jsonrpc as R


def same_id(a: Any, b: Any) -> bool:
    return type(a) is type(b) and a == b


def is_batch_level_error(doc: Any) -> bool:
    return (isinstance(doc, dict) and doc.get('jsonrpc') == '2.0' and isinstance(doc.get('jsonrpc'), str)
            and doc.get('id') is None and 'error' in doc and R.valid_error(doc['error']) is None)


def match_single(request: Dict[str, Any], reply_text: Optional[str], strict: bool) -> Dict[str, Any]:
    """Expected client verdict for a single call.  {'verdict': decode|deser|identity|accept|open, ...}"""
    if reply_text is None:
        return {'verdict': 'open'}
    ok, doc = R.strict_loads(reply_text)
    if not ok:
        return {'verdict': 'decode'}
    why = R.valid_response(doc)
    if why:
        return {'verdict': 'deser', 'why': why}
    rid = doc.get('id')
    if strict and rid is not None and not same_id(rid, request['id']):
        return {'verdict': 'identity'}
    return {'verdict': 'accept', 'reply': doc}


def match_batch(requests: List[Dict[str, Any]], reply_text: Optional[str], strict: bool) -> Dict[str, Any]:
    """Expected client verdict for a batch with at least one call."""
    if reply_text is None:
        return {'verdict': 'open'}
    ok, doc = R.strict_loads(reply_text)
    if not ok:
        return {'verdict': 'decode'}
    if isinstance(doc, dict):
        if is_batch_level_error(doc):
            return {'verdict': 'batch_error', 'error': doc['error']}
        return {'verdict': 'deser', 'why': 'an object that is not a batch-level error'}
    if not isinstance(doc, list):
        return {'verdict': 'deser', 'why': 'neither an array nor an error object'}
    for el in doc:
        why = R.valid_response(el)
        if why:
            return {'verdict': 'deser', 'why': why}
    ids = [el.get('id') for el in doc]
    if any(i is None for i in ids):
        if strict:
            # where a null-id entry belongs is open, but it answers no call: a call without a response of its own id
            # stays unanswered
            call_ids = [r['id'] for r in requests if r.get('id') is not None]
            missing = [c for c in call_ids if not any(same_id(c, i) for i in ids if i is not None)]
            if missing:
                return {'verdict': 'identity', 'why': f'missing {missing!r} (null-id entries answer no call)'}
            # ... and "repeats an id" is stated without a condition on the rest of the array
            named = [i for i in ids if i is not None]
            if any(same_id(named[a], named[b]) for a in range(len(named)) for b in range(a + 1, len(named))):
                return {'verdict': 'identity', 'why': 'repeated id (next to a null-id entry)'}
        return {'verdict': 'open', 'why': 'null id inside a batch reply'}
    for a in range(len(ids)):
        for b in range(a + 1, len(ids)):
            if same_id(ids[a], ids[b]):
                return {'verdict': 'identity' if strict else 'open', 'why': 'repeated id'}
    call_ids = [r['id'] for r in requests if r.get('id') is not None]
    missing = [c for c in call_ids if not any(same_id(c, i) for i in ids)]
    foreign = [i for i in ids if not any(same_id(c, i) for c in call_ids)]
    if missing or foreign:
        if strict:
            return {'verdict': 'identity', 'why': f'missing {missing!r} foreign {foreign!r}'}
        return {'verdict': 'open', 'why': 'non-strict mismatch'}
    by_call = [next(el for el in doc if same_id(el['id'], c)) for c in call_ids]
    return {'verdict': 'accept', 'replies_in_call_order': by_call, 'array': doc}
