"""Reference semantics of JSON-RPC 2.0 documents and of a dispatcher (DESIGN.md Appendix F.1).

Written from the specification and the property statements, not from pjrpc's code.
"""
from __future__ import annotations

import inspect
import json
import sys
from typing import Any, Callable, Dict, List, Optional, Tuple

OPEN = ('$open',)  # "not modelled": the oracle accepts anything here

PARSE_ERROR, INVALID_REQUEST, METHOD_NOT_FOUND, INVALID_PARAMS, INTERNAL_ERROR, SERVER_ERROR = (
    -32700, -32600, -32601, -32602, -32603, -32000)


def is_int(v: Any) -> bool:
    return isinstance(v, int) and not isinstance(v, bool)


def valid_id(v: Any) -> bool:
    return v is None or is_int(v) or isinstance(v, str)


def valid_request(obj: Any) -> bool:
    if not isinstance(obj, dict):
        return False
    if not (isinstance(obj.get('jsonrpc'), str) and obj.get('jsonrpc') == '2.0'):
        return False
    if not isinstance(obj.get('method'), str):
        return False
    if 'id' in obj and not valid_id(obj['id']):
        return False
    if 'params' in obj and not isinstance(obj['params'], (list, dict)):
        return False
    return True


def valid_error(obj: Any) -> Optional[str]:
    if not isinstance(obj, dict):
        return 'error is not an object'
    if 'code' not in obj or not is_int(obj['code']):
        return 'error.code is not an integer'
    if 'message' not in obj or not isinstance(obj['message'], str):
        return 'error.message is not a string'
    return None


def valid_response(obj: Any) -> Optional[str]:
    """None if obj is a valid JSON-RPC 2.0 response object, else the reason."""
    if not isinstance(obj, dict):
        return 'response is not an object'
    if not (isinstance(obj.get('jsonrpc'), str) and obj.get('jsonrpc') == '2.0'):
        return 'jsonrpc member is not "2.0"'
    if 'id' in obj and not valid_id(obj['id']):
        return f'id {obj["id"]!r} is not a string, an integer or null'
    has_r, has_e = 'result' in obj, 'error' in obj
    if has_r == has_e:
        return 'not exactly one of result / error'
    if has_e:
        return valid_error(obj['error'])
    return None


def has_huge_int_literal(text: str) -> bool:
    """True if text contains a digit run longer than the interpreter's int<->str limit (open zone)."""
    limit = sys.get_int_max_str_digits() if hasattr(sys, 'get_int_max_str_digits') else 0
    if not limit:
        return False
    run = 0
    for ch in text:
        if ch.isdigit():
            run += 1
            if run > limit:
                return True
        else:
            run = 0
    return False


def strict_loads(text: str) -> Tuple[bool, Any]:
    """(is_json, value).  NaN / Infinity literals are not JSON."""
    def bad_const(name: str) -> Any:
        raise ValueError('non-JSON constant ' + name)
    try:
        return True, json.loads(text, parse_constant=bad_const)
    except (ValueError, RecursionError):
        return False, None


class MethodModel:
    """What the reference needs to know about a registered method."""

    def __init__(self, signature: inspect.Signature, body: Callable[..., Any],
                 validate: Optional[Callable[[Dict[str, Any]], bool]] = None, internal: bool = False):
        self.signature = signature
        self.body = body
        self.internal = internal   # handling fails inside the library's machinery (answered -32603, body not run)
        self.validate = validate   # schema / type validation of the bound arguments, if a validator is attached


def _err(id_: Any, code: int, message: Any = OPEN, data: Any = OPEN) -> Dict[str, Any]:
    return {'jsonrpc': '2.0', 'id': id_, 'error': {'code': code, 'message': message, 'data': data}}


def element_outcome(req: Dict[str, Any], methods: Dict[str, MethodModel], unset: Any,
                    error_types: Tuple[type, ...]) -> Tuple[Optional[Dict[str, Any]], Optional[Tuple[str, Any]]]:
    """Reply object (or None for a notification) and the expected execution (method, params) or None."""
    id_ = req.get('id')
    is_call = id_ is not None
    name = req['method']
    params = req.get('params', [])
    model = methods.get(name)
    if model is None:
        return (_err(id_, METHOD_NOT_FOUND) if is_call else None), None
    if model.internal:
        return (_err(id_, INTERNAL_ERROR) if is_call else None), None
    args = params if isinstance(params, list) else []
    kwargs = params if isinstance(params, dict) else {}
    try:
        bound = model.signature.bind(*args, **kwargs)
    except TypeError:
        return (_err(id_, INVALID_PARAMS) if is_call else None), None
    if model.validate is not None and not model.validate(dict(bound.arguments)):
        return (_err(id_, INVALID_PARAMS) if is_call else None), None
    execution = (name, params)
    try:
        value = model.body(*args, **kwargs)
    except error_types as e:  # protocol error raised by the method: verbatim
        err: Dict[str, Any] = {'code': e.code, 'message': e.message}  # type: ignore[attr-defined]
        if e.data is not unset:  # type: ignore[attr-defined]
            err['data'] = json.loads(json.dumps(e.data))  # type: ignore[attr-defined]
        else:
            err['data'] = ABSENT_DATA
        reply = {'jsonrpc': '2.0', 'id': id_, 'error': err}
    except Exception:  # noqa: BLE001 - any other exception: -32000, no data
        reply = _err(id_, SERVER_ERROR, OPEN, ABSENT_DATA)
    else:
        reply = {'jsonrpc': '2.0', 'id': id_, 'result': json.loads(json.dumps(value))}
    return (reply if is_call else None), execution


ABSENT_DATA = ('$absent',)


def ref_dispatch(text: str, methods: Dict[str, MethodModel], max_batch_size: Optional[int], unset: Any,
                 error_types: Tuple[type, ...]) -> Dict[str, Any]:
    """Expected behaviour for one request text.

    Returns {'open': bool, 'reply': doc|None|list of alternatives, 'executions': [...], 'alternatives': [...]}.
    ``alternatives`` lists every acceptable (reply, executions) pair (more than one only in the open zones).
    """
    if has_huge_int_literal(text):
        return {'open': True, 'alternatives': []}
    ok, doc = strict_loads(text)
    if not ok:
        # not JSON by the strict reading; NaN/Infinity is outside the quantifier
        try:
            json.loads(text)
        except (ValueError, RecursionError):
            return {'open': False, 'alternatives': [(_err(None, PARSE_ERROR), [])]}
        return {'open': True, 'alternatives': []}
    if isinstance(doc, list):
        if len(doc) == 0 or not all(valid_request(e) for e in doc):
            return {'open': False, 'alternatives': [(_err(None, INVALID_REQUEST), [])]}
        seen: List[Any] = []
        for e in doc:
            i = e.get('id')
            if i is None:
                continue
            if any(type(i) is type(s) and i == s for s in seen):
                return {'open': False, 'alternatives': [(_err(None, INVALID_REQUEST), [])]}
            seen.append(i)
        reject = (_err(None, INVALID_REQUEST), [])
        if max_batch_size is not None and max_batch_size >= 1 and len(doc) > max_batch_size:
            return {'open': False, 'alternatives': [reject]}
        replies, execs = [], []
        for e in doc:
            r, x = element_outcome(e, methods, unset, error_types)
            if r is not None:
                replies.append(r)
            if x is not None:
                execs.append(x)
        accept = ((replies if replies else None), execs)
        if max_batch_size == 0:
            return {'open': False, 'alternatives': [accept, reject]}
        return {'open': False, 'alternatives': [accept]}
    if valid_request(doc):
        r, x = element_outcome(doc, methods, unset, error_types)
        return {'open': False, 'alternatives': [(r, [x] if x is not None else [])]}
    return {'open': False, 'alternatives': [(_err(None, INVALID_REQUEST), [])]}


def match_reply(actual: Any, expected: Any) -> Optional[str]:
    """None if the actual reply document matches the expected one (OPEN parts ignored), else the reason."""
    if expected is None or actual is None:
        return None if expected is None and actual is None else f'expected {_short(expected)}, got {_short(actual)}'
    if isinstance(expected, list):
        if not isinstance(actual, list):
            return f'expected an array of {len(expected)} responses, got {_short(actual)}'
        if len(actual) != len(expected):
            return f'expected {len(expected)} responses, got {len(actual)}'
        for k, (a, e) in enumerate(zip(actual, expected)):
            why = match_reply(a, e)
            if why:
                return f'element {k}: {why}'
        return None
    if not isinstance(actual, dict):
        return f'expected a response object, got {_short(actual)}'
    why = valid_response(actual)
    if why:
        return why
    if 'id' not in actual:
        return 'id member missing'
    if type(actual['id']) is not type(expected['id']) or actual['id'] != expected['id']:
        return f'id {actual["id"]!r} instead of {expected["id"]!r}'
    if 'result' in expected:
        if 'result' not in actual:
            return f'expected result {_short(expected["result"])}, got error {_short(actual.get("error"))}'
        if not json_equal(actual['result'], expected['result']):
            return f'result {_short(actual["result"])} instead of {_short(expected["result"])}'
        return None
    if 'error' not in actual:
        return f'expected error {expected["error"]["code"]}, got result {_short(actual.get("result"))}'
    ae, ee = actual['error'], expected['error']
    if ae['code'] != ee['code'] or type(ae['code']) is not type(ee['code']):
        return f'error code {ae["code"]!r} instead of {ee["code"]!r}'
    if ee['message'] is not OPEN and ae['message'] != ee['message']:
        return f'error message {ae["message"]!r} instead of {ee["message"]!r}'
    if ee['data'] is ABSENT_DATA:
        if 'data' in ae:
            return f'error data {_short(ae["data"])} present, expected absent'
    elif ee['data'] is not OPEN:
        if 'data' not in ae:
            return f'error data absent, expected {_short(ee["data"])}'
        if not json_equal(ae['data'], ee['data']):
            return f'error data {_short(ae["data"])} instead of {_short(ee["data"])}'
    return None


def json_equal(a: Any, b: Any) -> bool:
    """Equality of JSON values that distinguishes bool from int and int from float."""
    if isinstance(a, bool) or isinstance(b, bool):
        return isinstance(a, bool) and isinstance(b, bool) and a == b
    if isinstance(a, (int, float)) and isinstance(b, (int, float)):
        return a == b
    if type(a) is not type(b):
        return False
    if isinstance(a, list):
        return len(a) == len(b) and all(json_equal(x, y) for x, y in zip(a, b))
    if isinstance(a, dict):
        return a.keys() == b.keys() and all(json_equal(a[k], b[k]) for k in a)
    return a == b


def _short(v: Any, limit: int = 120) -> str:
    try:
        s = json.dumps(v, default=repr)
    except (TypeError, ValueError):
        s = repr(v)
    return s if len(s) <= limit else s[:limit] + '...'


def expected_codes(reply: Any) -> Optional[Tuple[int, ...]]:
    if reply is None:
        return None
    objs = reply if isinstance(reply, list) else [reply]
    return tuple((o['error']['code'] if isinstance(o, dict) and 'error' in o else 0) for o in objs)


def same_document(a: Any, b: Any) -> bool:
    """Equality of response documents up to the order of a batch array (the order carries no meaning)."""
    if isinstance(a, list) and isinstance(b, list):
        key = lambda v: json.dumps(v, sort_keys=True)  # noqa: E731
        return len(a) == len(b) and all(json_equal(x, y) for x, y in zip(sorted(a, key=key), sorted(b, key=key)))
    return json_equal(a, b)
