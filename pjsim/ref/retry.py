"""Reference retry model (DESIGN.md Appendix F.4): closed formulas, written from the property statement."""
from __future__ import annotations

from typing import Any, Dict, List, Optional, Sequence, Tuple


def fib(k: int) -> int:
    """1, 2, 3, 5, 8, ... (k = 0, 1, 2, ...)"""
    a, b = 1, 2
    for _ in range(k):
        a, b = b, a + b
    return a


def delays(backoff: Dict[str, Any]) -> List[float]:
    """The successive delays of a backoff description (length = attempts)."""
    n = backoff['attempts']
    j = backoff.get('jitter', 0.0)
    out: List[float] = []
    for k in range(n):
        fam = backoff['family']
        if fam == 'periodic':
            v = backoff['interval'] + j
        elif fam == 'exponential':
            v = backoff['base'] * (backoff['factor'] ** k) + j
            if backoff.get('max_value') is not None:
                v = min(backoff['max_value'], v)
        elif fam == 'fibonacci':
            v = backoff['multiplier'] * fib(k) + j
            if backoff.get('max_value') is not None:
                v = min(backoff['max_value'], v)
        else:
            raise ValueError(fam)
        out.append(v)
    return out


def expected(strategy: Optional[Dict[str, Any]], retryable: Sequence[bool]) -> Tuple[int, List[float]]:
    """(number of sends, pauses between them) for a per-attempt retryability script.

    ``retryable[k]`` says whether attempt k's outcome is retryable under the strategy in force.
    """
    if not strategy:
        return 1, []
    ds = delays(strategy['backoff'])
    sends = 1
    pauses: List[float] = []
    for k, r in enumerate(retryable):
        if not r or len(pauses) >= len(ds):
            break
        pauses.append(ds[len(pauses)])
        sends += 1
    return sends, pauses
