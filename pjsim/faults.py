"""Fault operators on messages in flight, and the per-member alphabets they draw from.

A fault is a tuple ``(kind, *args)`` fixed when the scenario is drawn, so applying it is a
pure function of the text in flight (and, for id confusion, of the request document).
"""
from __future__ import annotations

import json
from typing import Any, Dict, List, Optional, Tuple

ABSENT = ('$absent',)  # marker: remove the member

# per-member alphabets (JSON values; ABSENT removes the member)
VERSION_ALPHABET: List[Any] = [ABSENT, None, '1.0', '2', 2.0, 2, '', True, [], {}, '2.00', '\ud83d', ' 2.0', '2.0 ']
ID_ALPHABET: List[Any] = [ABSENT, None, True, False, 0, 1, -1, 1.0, 1.5, '', 'x', '1', [], {}, [1], {'a': 1},
                          2 ** 63, 1e2, '\ud83d-lone-surrogate', 'x' * 300, ' x', 'e\u0301']
METHOD_ALPHABET: List[Any] = [ABSENT, None, True, 0, 1, 1.5, '', 'nosuch', [], {}, ['echo'], {'a': 1}, '\ud83d', ' echo', 'echo ',
                              'ech\u043e']
PARAMS_ALPHABET: List[Any] = [ABSENT, None, True, False, 0, 1, -1, 1.5, '', 'x', [], {}, [1], {'a': 1}]
RESULT_ALPHABET: List[Any] = [ABSENT, None, False, True, 0, 1, -1, 1.5, '', 'x', [], {}, [1], {'a': 1}]
ERROR_ALPHABET: List[Any] = [ABSENT, None, False, True, 0, 1, '', 'x', [], {}, [1], {'code': 1}, {'message': 'm'},
                             {'code': 1, 'message': 'm'}]
CODE_ALPHABET: List[Any] = [ABSENT, None, True, False, 0, 1, -1, 1.0, 1.5, '', '1', [], {}, -32000, 2001, 2 ** 53 + 1]
MESSAGE_ALPHABET: List[Any] = [ABSENT, None, True, 0, 1, 1.5, '', 'x', [], {}, ['m']]
DATA_ALPHABET: List[Any] = [ABSENT, None, False, 0, '', [], {}, [1], {'a': 1}, 'x']
NONOBJECT_ALPHABET: List[Any] = [None, True, False, 0, 1, -1, 1.5, '', 'x', [], [1], ['x'], [[]], [None], [{}], {}]

REQUEST_MEMBERS: Dict[str, List[Any]] = {
    'jsonrpc': VERSION_ALPHABET, 'id': ID_ALPHABET, 'method': METHOD_ALPHABET, 'params': PARAMS_ALPHABET,
}
RESPONSE_MEMBERS: Dict[str, List[Any]] = {
    'jsonrpc': VERSION_ALPHABET, 'id': ID_ALPHABET, 'result': RESULT_ALPHABET, 'error': ERROR_ALPHABET,
}
ERROR_MEMBERS: Dict[str, List[Any]] = {
    'code': CODE_ALPHABET, 'message': MESSAGE_ALPHABET, 'data': DATA_ALPHABET,
}


def set_member(obj: Dict[str, Any], name: str, value: Any) -> None:
    if value is ABSENT or value == list(ABSENT):
        obj.pop(name, None)
    else:
        obj[name] = value


def _loads(text: Optional[str]) -> Tuple[bool, Any]:
    if text is None:
        return False, None
    try:
        return True, json.loads(text)
    except (ValueError, RecursionError):
        return False, None


def _dumps(doc: Any) -> str:
    return json.dumps(doc)


def _element(doc: Any, idx: int) -> Optional[Dict[str, Any]]:
    if isinstance(doc, dict):
        return doc
    if isinstance(doc, list) and doc:
        el = doc[idx % len(doc)]
        return el if isinstance(el, dict) else None
    return None


# --- request leg --------------------------------------------------------------------------------------------
def apply_req_fault(text: str, fault: Tuple[Any, ...]) -> str:
    kind = fault[0]
    if kind == 'truncate':
        k = fault[1] % (len(text) + 1)
        return text[:k]
    if kind == 'garble':
        pos = fault[1] % max(1, len(text))
        return text[:pos] + fault[2] + text[pos + 1:]
    if kind == 'insert':
        pos = fault[1] % (len(text) + 1)
        return text[:pos] + fault[2] + text[pos:]
    if kind == 'repeat_span':
        # repeat a span; if the span is inside a digit run this inflates an integer literal
        pos = fault[1] % max(1, len(text))
        length = max(1, fault[2])
        return text[:pos] + text[pos:pos + length] * fault[3] + text[pos + length:]
    if kind == 'bigint':
        ok, doc = _loads(text)
        if not ok:
            return text
        el = _element(doc, fault[1])
        if el is None:
            return text
        target = fault[2]  # 'id' | 'params'
        big = '7' * fault[3]
        sentinel = '"@@BIGINT@@"'
        if target == 'id':
            el['id'] = '@@BIGINT@@'
        else:
            el['params'] = ['@@BIGINT@@']
        return _dumps(doc).replace(sentinel, big)
    if kind == 'member':
        ok, doc = _loads(text)
        if not ok:
            return text
        el = _element(doc, fault[1])
        if el is None:
            return text
        for name, value in fault[2]:
            set_member(el, name, value)
        return _dumps(doc)
    if kind == 'nest':
        ok, doc = _loads(text)
        if not ok:
            return text
        el = _element(doc, fault[1])
        if el is None:
            return text
        depth, as_list = fault[2], fault[3]
        v: Any = 'deep'
        for _ in range(depth):
            v = [v] if as_list else {'k': v}
        el['params'] = [v] if as_list else {'value': v}
        return _dumps(doc)
    if kind == 'replace':
        return fault[1]
    if kind == 'wrap_nonobject':
        return _dumps(fault[1])
    raise ValueError(f'unknown request fault {kind!r}')


# --- response leg ---------------------------------------------------------------------------------------------
def apply_resp_fault(text: Optional[str], fault: Tuple[Any, ...], request_text: str, world: Any = None) -> Optional[str]:
    kind = fault[0]
    if kind == 'seq':
        # several faults on the same reply, applied in order
        for f in fault[1]:
            text = apply_resp_fault(text, tuple(f), request_text, world)
        return text
    if kind == 'truncate':
        if not text:
            return text
        return text[:fault[1] % len(text)]
    if kind == 'garble':
        if not text:
            return text
        pos = fault[1] % len(text)
        return text[:pos] + fault[2] + text[pos + 1:]
    if kind == 'not_json':
        return fault[1]
    if kind == 'replace':
        return fault[1]
    if kind == 'body_for_notification':
        return fault[1] if not text else text
    ok, doc = _loads(text)
    if not ok:
        return text
    if kind == 'member':
        el = _element(doc, fault[1])
        if el is None:
            return text
        for name, value in fault[2]:
            set_member(el, name, value)
        return _dumps(doc)
    if kind == 'error_member':
        el = _element(doc, fault[1])
        if el is None or not isinstance(el.get('error'), dict):
            return text
        for name, value in fault[2]:
            set_member(el['error'], name, value)
        return _dumps(doc)
    if kind == 'permute':
        if not isinstance(doc, list):
            return text
        perm = fault[1]
        n = len(doc)
        order = [p for p in perm if p < n] + [i for i in range(n) if i not in perm]
        return _dumps([doc[i] for i in order])
    if kind == 'omit':
        if not isinstance(doc, list) or not doc:
            return text
        i = fault[1] % len(doc)
        return _dumps(doc[:i] + doc[i + 1:])
    if kind == 'dup':
        if not isinstance(doc, list) or not doc:
            return text
        i = fault[1] % len(doc)
        j = fault[2] % (len(doc) + 1)
        return _dumps(doc[:j] + [doc[i]] + doc[j:])
    if kind == 'extra':
        if not isinstance(doc, list):
            return text
        j = fault[2] % (len(doc) + 1)
        return _dumps(doc[:j] + [fault[1]] + doc[j:])
    if kind == 'id':
        # ('id', idx, mode, arg): mode in other | twin | null | foreign
        el = _element(doc, fault[1])
        if el is None or 'id' not in el:
            return text
        mode = fault[2]
        cur = el['id']
        if mode == 'null':
            el['id'] = None
        elif mode == 'twin':
            if isinstance(cur, bool) or cur is None:
                return text
            el['id'] = str(cur) if isinstance(cur, int) else (int(cur) if isinstance(cur, str) and cur.lstrip('-').isdigit() else cur + '_')
        elif mode == 'other':
            ok2, rdoc = _loads(request_text)
            ids = [e.get('id') for e in (rdoc if isinstance(rdoc, list) else [rdoc])
                   if isinstance(e, dict) and e.get('id') is not None and e.get('id') != cur]
            if not ids:
                return text
            el['id'] = ids[fault[3] % len(ids)]
        elif mode == 'foreign':
            el['id'] = fault[3]
            # a long string id gets a stranger that differs from it in the middle only (same head, same tail), a long
            # integer one that differs in a middle digit
            if isinstance(cur, str) and len(cur) >= 24:
                mid = len(cur) // 2
                el['id'] = cur[:mid] + ('0' if cur[mid] != '0' else '1') + cur[mid + 1:]
            elif isinstance(cur, int) and not isinstance(cur, bool) and abs(cur) >= 10 ** 30:
                digits = str(cur)
                mid = len(digits) // 2
                el['id'] = int(digits[:mid] + ('0' if digits[mid] != '0' else '1') + digits[mid + 1:])
        return _dumps(doc)
    if kind == 'batch_error':
        return _dumps({'jsonrpc': '2.0', 'id': None, 'error': {'code': fault[1], 'message': fault[2]}})
    if kind == 'unwrap':
        # a batch answered with a single response object / a single answered with an array
        if isinstance(doc, list):
            return _dumps(doc[0]) if doc else text
        return _dumps([doc])
    raise ValueError(f'unknown response fault {kind!r}')
