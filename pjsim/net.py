"""SimNet: the simulated transport between pjrpc clients and pjrpc dispatchers.

``SimClient`` / ``SimAsyncClient`` implement only ``_request`` (the transport seam pjrpc
already has); everything above it is pjrpc's own code.  ``_request`` hands the text to
``SimNet``, which applies the fault plan of this attempt, lets the server node serve it,
and returns the (possibly altered) response text, ``None``, or raises.
"""
from __future__ import annotations

import asyncio
from typing import Any, Callable, Dict, Generator, List, Optional, Tuple

import pjrpc
import pjrpc.client
import pjrpc.server

from . import faults as F
from .world import HarnessError, World


# --- transport exceptions ------------------------------------------------------------------------------------------
class SimTimeout(TimeoutError):
    pass


class SimConnError(ConnectionError):
    pass


class SimConnReset(SimConnError):
    """A subclass of a (possibly listed) exception class."""


class SimOther(Exception):
    """Never listed in any retry strategy."""


class SimAbort(BaseException):
    """A BaseException that is not an Exception (like cancellation / KeyboardInterrupt)."""


class _Deferred(Exception):
    """Carries an exception that a generator frame cannot raise itself (StopIteration): roundtrip() raises it."""

    def __init__(self, exc: BaseException):
        super().__init__()
        self.exc = exc


EXC_FACTORIES: Dict[str, Callable[[], BaseException]] = {
    'timeout': lambda: SimTimeout('simulated timeout'),
    'conn': lambda: SimConnError('simulated connection error'),
    'cancelled': lambda: asyncio.CancelledError('simulated cancellation raised by the transport'),
    'stopiter': lambda: _Deferred(StopIteration('the canned replies ran out')),
    'reset': lambda: SimConnReset('simulated connection reset'),
    'other': lambda: SimOther('simulated unlisted failure'),
    'abort': lambda: SimAbort('simulated abort'),
}


class ServerCrashed(Exception):
    """The dispatcher raised out of dispatch(); the transport reports a failed exchange."""


# --- server node ---------------------------------------------------------------------------------------------------
class ServerNode:
    def __init__(self, world: World, dispatcher: Any, loop: Optional[asyncio.AbstractEventLoop] = None,
                 node: str = 'server', context_factory: Optional[Callable[[], Any]] = None):
        self.world = world
        self.dispatcher = dispatcher
        self.is_async = isinstance(dispatcher, pjrpc.server.AsyncDispatcher)
        self.loop = loop
        self.node = node
        self.context_factory = context_factory
        self.monitors: List[Callable[[str, Tuple[str, Any]], None]] = []
        self.deliveries = 0

    def _ctx(self) -> Any:
        ctx = self.context_factory() if self.context_factory else None
        from . import service as _svc
        mark = getattr(ctx, 'mark', None)
        _svc.CURRENT_CONTEXT_MARK[0] = mark if isinstance(mark, str) else None
        return ctx

    def _observe(self, text: str, outcome: Tuple[str, Any]) -> None:
        for m in self.monitors:
            m(text, outcome)

    def _record_reply(self, reply: Any) -> None:
        if reply is None:
            self.world.rec(self.node, 'server.reply', body=None)
        elif isinstance(reply, tuple) and len(reply) == 2:
            self.world.rec(self.node, 'server.reply', body=reply[0], codes=list(reply[1])
                           if isinstance(reply[1], (tuple, list)) else repr(reply[1]))
        else:
            self.world.rec(self.node, 'server.reply', body=repr(reply))

    def serve(self, text: str) -> Any:
        """Serve one request text for a synchronous caller."""
        self.deliveries += 1
        self.world.rec(self.node, 'server.recv', text=text)
        try:
            if self.is_async:
                if self.loop is None:
                    raise HarnessError('async dispatcher needs a loop')
                reply = self.loop.run_until_complete(self.dispatcher.dispatch(text, self._ctx()))
            else:
                reply = self.dispatcher.dispatch(text, self._ctx())
        except Exception as e:  # noqa: BLE001
            self.world.rec(self.node, 'server.crash', exc=type(e).__name__)
            self._observe(text, ('raise', e))
            raise ServerCrashed(type(e).__name__) from e
        self._record_reply(reply)
        self._observe(text, ('ret', reply))
        return reply

    async def aserve(self, text: str) -> Any:
        """Serve one request text for a caller running on the loop."""
        self.deliveries += 1
        self.world.rec(self.node, 'server.recv', text=text)
        try:
            if self.is_async:
                reply = await self.dispatcher.dispatch(text, self._ctx())
            else:
                reply = self.dispatcher.dispatch(text, self._ctx())
        except Exception as e:  # noqa: BLE001
            self.world.rec(self.node, 'server.crash', exc=type(e).__name__)
            self._observe(text, ('raise', e))
            raise ServerCrashed(type(e).__name__) from e
        self._record_reply(reply)
        self._observe(text, ('ret', reply))
        return reply


def _token_of(text: str) -> Any:
    """The token (first parameter) of the first element of a request text."""
    import json as _json
    try:
        doc = _json.loads(text)
    except ValueError:
        return None
    el = doc[0] if isinstance(doc, list) and doc else doc
    p = el.get('params') if isinstance(el, dict) else None
    if isinstance(p, list) and p:
        return p[0] if isinstance(p[0], str) else None
    if isinstance(p, dict):
        return p.get('tok') if isinstance(p.get('tok'), str) else None
    return None


# --- the network -----------------------------------------------------------------------------------------------------
def no_fault_plan() -> Dict[str, Any]:
    return {'pre': 0.0, 'post': 0.0, 'req': None, 'resp': None, 'exc': None, 'exc_when': 'before'}


class SimNet:
    """One client's path to one server node.  ``script[k]`` is the fault plan of attempt k (0-based)."""

    def __init__(self, world: World, server: Optional[ServerNode], script: Optional[List[Dict[str, Any]]] = None,
                 name: str = 'net', timeout: float = 30.0):
        self.world = world
        self.server = server
        self.script = script or []
        self.name = name
        self.timeout = timeout
        self.attempt = 0
        self.sent: List[str] = []
        self.raised: List[BaseException] = []   # exception objects raised to the client, in order
        self.keyed_scripts: Dict[str, List[Dict[str, Any]]] = {}
        self.keyed_attempts: Dict[str, int] = {}
        self.current_key: Any = None
        self.raised_keyed: Dict[Any, List[BaseException]] = {}
        self.current_keyed_attempt = 0

    def _plan(self, text: str = '') -> Dict[str, Any]:
        k = self.attempt
        self.attempt += 1
        script = self.script
        if self.keyed_scripts:
            # concurrent callers: each request (identified by the token in its first element) has its own script and
            # its own attempt counter
            key = _token_of(text)
            script = self.keyed_scripts.get(key, [])
            k = self.keyed_attempts.get(key, 0)
            self.keyed_attempts[key] = k + 1
            self.current_key = key
            self.current_keyed_attempt = k
        if k < len(script):
            p = dict(no_fault_plan())
            p.update(script[k])
            return p
        return no_fault_plan()

    def _raise(self, kind: str, where: str, key: Any = None, attempt: Optional[int] = None) -> BaseException:
        exc = EXC_FACTORIES[kind]()
        real = exc.exc if isinstance(exc, _Deferred) else exc
        self.raised.append(real)
        if self.keyed_scripts:
            self.raised_keyed.setdefault(key, []).append(real)
        self.world.rec(self.name, 'wire.raise', exc=type(real).__name__, where=where, oid=self.world.ordinal(real),
                       attempt=self.attempt - 1 if attempt is None else attempt, key=key)
        return exc

    def _flow(self, text: str, is_notification: bool) -> Generator[Tuple[str, Any], Any, Optional[str]]:
        """The exchange as a generator of effects: ('sleep', d) and ('serve', text)."""
        w = self.world
        plan = self._plan(text)
        k = self.attempt - 1
        key = None
        if self.keyed_scripts:
            key, k = self.current_key, self.current_keyed_attempt
            w.plan[('attempt', self.name, key)] = k
        self.sent.append(text)
        w.plan['attempt:' + self.name] = k
        w.rec(self.name, 'wire.send', attempt=k, text=text, notification=bool(is_notification), key=key)
        if plan['pre']:
            yield ('sleep', plan['pre'])
        if plan['exc'] and plan['exc_when'] == 'before':
            w.fault('raise_exc', exc=plan['exc'], when='before')
            raise self._raise(plan['exc'], 'before', key, k)
        req_text: Optional[str] = text
        if plan['req']:
            kind = plan['req'][0]
            if kind == 'lost':
                w.fault('req_lost')
                yield ('sleep', self.timeout)
                raise self._raise(plan['req'][1] if len(plan['req']) > 1 else 'timeout', 'req_lost', key, k)
            req_text = F.apply_req_fault(text, plan['req'])
            if req_text != text:
                w.fault('req_' + kind, text=req_text)
        if plan.get('override') is not None:
            # scripted peer: the reply is computed from the request document by the scenario
            reply_text = plan['override'](text)
            w.rec(self.name, 'peer.scripted', body=reply_text)
        else:
            if self.server is None:
                raise HarnessError('no server node and no scripted reply')
            try:
                reply = yield ('serve', req_text)
            except ServerCrashed:
                exc = SimOther('server crashed')
                self.raised.append(exc)
                w.rec(self.name, 'wire.raise', exc='SimOther', where='server_crash', oid=w.ordinal(exc), attempt=k)
                raise exc
            reply_text = None if reply is None else reply[0]
        if plan['exc'] and plan['exc_when'] == 'after':
            w.fault('resp_lost', exc=plan['exc'])
            if plan['post']:
                yield ('sleep', plan['post'])
            raise self._raise(plan['exc'], 'after', key, k)
        if plan['resp']:
            new_text = F.apply_resp_fault(reply_text, plan['resp'], text, w)
            if new_text != reply_text:
                w.fault('resp_' + plan['resp'][0], text=new_text)
            reply_text = new_text
        if plan['post']:
            yield ('sleep', plan['post'])
        w.rec(self.name, 'wire.deliver', attempt=k, text=reply_text, key=key)
        return reply_text

    def roundtrip(self, text: str, is_notification: bool) -> Optional[str]:
        w = self.world
        gen = self._flow(text, is_notification)
        try:
            eff = next(gen)
            while True:
                if eff[0] == 'sleep':
                    w.now += eff[1]
                    eff = gen.send(None)
                else:
                    try:
                        reply = self.server.serve(eff[1])  # type: ignore[union-attr]
                    except ServerCrashed as e:
                        eff = gen.throw(e)
                    else:
                        eff = gen.send(reply)
        except StopIteration as stop:
            return stop.value
        except _Deferred as d:
            raise d.exc from None

    async def aroundtrip(self, text: str, is_notification: bool) -> Optional[str]:
        gen = self._flow(text, is_notification)
        try:
            eff = next(gen)
            while True:
                if eff[0] == 'sleep':
                    await asyncio.sleep(eff[1])
                    eff = gen.send(None)
                else:
                    try:
                        reply = await self.server.aserve(eff[1])  # type: ignore[union-attr]
                    except ServerCrashed as e:
                        eff = gen.throw(e)
                    else:
                        eff = gen.send(reply)
        except StopIteration as stop:
            return stop.value
        finally:
            gen.close()


# --- clients ---------------------------------------------------------------------------------------------------------
class SimClient(pjrpc.client.AbstractClient):
    def __init__(self, net: SimNet, **kwargs: Any):
        super().__init__(**kwargs)
        self._net = net
        self._endpoint = 'sim://' + net.name

    def _request(self, request_text: str, is_notification: bool = False, **kwargs: Any) -> Optional[str]:
        if kwargs:
            self._net.world.rec(self._net.name, 'wire.kwargs', keys=sorted(kwargs))
        return self._net.roundtrip(request_text, is_notification)


class SimAsyncClient(pjrpc.client.AbstractAsyncClient):
    def __init__(self, net: SimNet, **kwargs: Any):
        super().__init__(**kwargs)
        self._net = net
        self._endpoint = 'sim://' + net.name

    async def _request(self, request_text: str, is_notification: bool = False, **kwargs: Any) -> Optional[str]:
        if kwargs:
            self._net.world.rec(self._net.name, 'wire.kwargs', keys=sorted(kwargs))
        return await self._net.aroundtrip(request_text, is_notification)
